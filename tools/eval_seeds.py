#!/venv/bin/python
"""Take the changes a sub-agent left in /tmp/seed_<ID>/out/{A,B}, confirm them (tests pass with the change, demo fails
with it and passes without), run the property's check against each, and keep them under /verif/seeded/.
usage: tools/eval_seeds.py C18 [--tier quick] [--also C02,C12]"""
import argparse, json, os, shutil, subprocess, sys
VERIF = os.path.dirname(os.path.dirname(os.path.abspath(__file__)))
ap = argparse.ArgumentParser(); ap.add_argument('pid'); ap.add_argument('--tier', default='quick'); ap.add_argument('--also', default=''); ap.add_argument('--src', default='/tmp/seed_%s/out/%s'); ap.add_argument('--suffix', default=''); ap.add_argument('--repo', default='/repo')
args = ap.parse_args()
pid = args.pid
for x in ('A', 'B'):
    src = args.src % (pid, x)
    if not os.path.exists(os.path.join(src, 'patch.diff')):
        continue
    dst = os.path.join(VERIF, 'seeded', '%s-%s%s' % (pid, x, args.suffix))
    os.makedirs(dst, exist_ok=True)
    for f in ('patch.diff', 'demo.py', 'notes.md'):
        if os.path.exists(os.path.join(src, f)):
            shutil.copy(os.path.join(src, f), os.path.join(dst, f))
    # demos were written for the agent's worktree: make them importable from /repo
    demo = os.path.join(dst, 'demo.py')
    txt = open(demo).read().replace(os.path.dirname(os.path.dirname(src)), args.repo)
    open(demo, 'w').write(txt)
    props = ','.join([pid] + [p for p in args.also.split(',') if p])
    out_json = os.path.join(dst, 'run.json')
    cmd = [sys.executable, os.path.join(VERIF, 'tools', 'try_seed.py'), os.path.join(dst, 'patch.diff'), '--props', props,
           '--tier', args.tier, '--demo', demo, '--json', out_json, '--repo', args.repo]
    print('==== %s-%s%s' % (pid, x, args.suffix)); sys.stdout.flush()
    subprocess.run(cmd)
    run = json.load(open(out_json)) if os.path.exists(out_json) else {}
    meta_path = os.path.join(dst, 'meta.json')
    meta = json.load(open(meta_path)) if os.path.exists(meta_path) else {}
    notes = open(os.path.join(dst, 'notes.md')).read() if os.path.exists(os.path.join(dst, 'notes.md')) else ''
    meta.update({
        'property': pid, 'origin': 'independent sub-agent given only the property text and a scratch worktree of /repo',
        'needs_to_manifest': notes.strip()[:1500],
        'confirmed': {'tests_with_change': run.get('tests'), 'demo_exit_without_change': run.get('demo_without_change'),
                      'demo_exit_with_change': run.get('demo_with_change')},
    })
    meta.setdefault('checks_run', {})
    for k, v in run.get('checks', {}).items():
        meta['checks_run']['%s/%s' % (k, args.tier)] = v
    meta['ran'] = 'tools/try_seed.py seeded/%s-%s%s/patch.diff --props %s --tier %s --demo seeded/%s-%s%s/demo.py' % (pid, x, args.suffix, props, args.tier, pid, x, args.suffix)
    v = run.get('checks', {}).get(pid, {})
    meta['caught_by_quick_check'] = (v.get('exit') == 1 and v.get('violations', 0) > 0)
    json.dump(meta, open(meta_path, 'w'), indent=1)
    if os.path.exists(out_json):
        os.remove(out_json)
