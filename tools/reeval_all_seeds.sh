#!/bin/sh
# re-run every kept seeded change against its property's quick check and refresh seeded/*/meta.json
cd "$(dirname "$0")/.."
for d in seeded/*/; do
  id=$(basename $d); pid=${id%-*}
  case "$id" in ${ONLY:-*}) ;; *) continue;; esac
  echo "==== $id"
  if ! git -C ${SEED_REPO:-/repo} apply --check $(pwd)/$d/patch.diff 2>/dev/null; then
    echo "patch does not apply to the current tree: marked obsolete"
    /venv/bin/python - "$d" <<'PY'
import json, os, subprocess, sys
d = sys.argv[1]
meta = json.load(open(os.path.join(d, 'meta.json')))
meta['obsolete'] = ('the code this change modified no longer exists in /repo (removed by a later fix: commit); results below were '
                    'obtained on the tree the change was written for')
json.dump(meta, open(os.path.join(d, 'meta.json'), 'w'), indent=1)
PY
    continue
  fi
  /venv/bin/python tools/try_seed.py $(pwd)/$d/patch.diff --repo ${SEED_REPO:-/repo} --props $pid --tier quick --demo $(pwd)/$d/demo.py --json $(pwd)/$d/run.json 2>&1 | grep -v "^demo without" | cut -c1-260
  /venv/bin/python - "$d" "$pid" <<'PY'
import json, os, sys
d, pid = sys.argv[1], sys.argv[2]
run = json.load(open(os.path.join(d, 'run.json')))
meta = json.load(open(os.path.join(d, 'meta.json')))
meta['confirmed'] = {'tests_with_change': run.get('tests'), 'demo_exit_without_change': run.get('demo_without_change'), 'demo_exit_with_change': run.get('demo_with_change')}
meta.setdefault('checks_run', {})
for k, v in run.get('checks', {}).items():
    meta['checks_run']['%s/quick' % k] = v
v = run.get('checks', {}).get(pid, {})
meta['caught_by_quick_check'] = (v.get('exit') == 1 and v.get('violations', 0) > 0)
json.dump(meta, open(os.path.join(d, 'meta.json'), 'w'), indent=1)
os.remove(os.path.join(d, 'run.json'))
PY
done
