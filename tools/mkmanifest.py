"""regenerate /verif/MANIFEST.json from the property modules that exist"""
import json, os, sys
HERE = os.path.dirname(os.path.dirname(os.path.abspath(__file__)))
sys.path.insert(0, HERE); sys.path.insert(0, os.path.join(HERE, '.deps')); sys.path.insert(0, '/repo')
os.environ.setdefault('PBR_VERSION', '0.0.0')
from vf import registry

props = [json.loads(l) for l in open(os.path.join(HERE, 'properties.jsonl'))]
NOT_APPLICABLE = json.load(open(os.path.join(HERE, 'tools', 'not_applicable.json')))
checks, na = [], []
for p in props:
    pid = p['id']
    if pid in NOT_APPLICABLE:
        na.append({'property_id': pid, 'reason': NOT_APPLICABLE[pid]})
        continue
    try:
        prop = registry.get(pid)
    except ModuleNotFoundError:
        na.append({'property_id': pid, 'reason': 'check not built yet (work in progress in this session; see DESIGN.md section 4 for the planned harness)'})
        continue
    checks.append({
        'property_id': pid,
        'quick_cmd': './check %s --tier quick' % pid,
        'thorough_cmd': './check %s --tier thorough' % pid,
        'evidence_file': '/verif/evidence/%s.json' % pid,
        'replay_cmd_template': './check %s --replay {path}' % pid,
        'engine': 'symx',
        'level_claimed': {
            'category': 'model_checking',
            'text': prop.LEVEL_TEXT,
            'design_ref': 'DESIGN.md section 4, %s' % pid,
        },
        'level_note': prop.LEVEL_NOTE,
        'technique': prop.TECHNIQUE,
    })
man = {
    'version': 1,
    'setup_cmd': 'sh ./setup.sh',
    'hooks': {
        'guard': 'CGSMILES_VERIF',
        'enable': 'no hooks are compiled into /repo: the checks re-read /repo/cgsmiles/*.py on every run, rewrite the AST in memory and execute it symbolically; CGSMILES_VERIF is reserved and unused',
        'baseline_off_cmd': 'cd /repo && /venv/bin/python -m pytest -ra -q -p no:cacheprovider --timeout=900 --continue-on-collection-errors',
        'source_commits': [],
        'add_only': True,
    },
    'engines': [{
        'name': 'symx',
        'path': '/verif/vf/symx.py',
        'serves_properties': [c['property_id'] for c in checks],
        'kind_free_text': 'bounded symbolic execution of the AST-rewritten Python source of /repo/cgsmiles with z3 (path forking by re-execution, table lookups merged into ite terms, summaries of pure predicates); counterexamples replayed on the unmodified package',
    }],
    'checks': checks,
    'not_applicable': na,
    'notes': 'exit codes: 0 held / 1 replayed violation / 2 inconclusive (never success). Known genuine defects: known_findings.json. Seeded faults: seeded/ (rounds 1-8). Behaviour-preserving changes the checks must stay silent on: benign/ (tools/ben_eval.py). See DESIGN.md 8.5-8.13.',
}
json.dump(man, open(os.path.join(HERE, 'MANIFEST.json'), 'w'), indent=1)
print('checks:', [c['property_id'] for c in checks]); print('n/a:', [x['property_id'] for x in na])
