#!/venv/bin/python
"""usage: ben_eval.py <worktree> <patch> [props]  -- apply a behaviour-preserving patch to a scratch worktree, run tests and checks"""
import subprocess, sys, re, time, os
wt, patch = sys.argv[1], sys.argv[2]
def sh(c, cwd=None, t=3000):
    p = subprocess.run(c, shell=True, cwd=cwd, stdout=subprocess.PIPE, stderr=subprocess.STDOUT, text=True, timeout=t)
    return p.returncode, p.stdout
MAP = {
 'read_cgsmiles.py': 'C04 C05 C07 C11 C14 C20 C01 C06 C12',
 'read_fragments.py': 'C13 C14 C15 C01 C08 C09 C10 C20 C16 C03',
 'dialects.py': 'C04 C13 C14 C20 C05 C07',
 'resolve.py': 'C01 C02 C03 C06 C09 C10 C11 C12 C15 C14 C20',
 'pysmiles_utils.py': 'C01 C02 C09 C10 C12 C15 C16 C17 C08',
 'graph_utils.py': 'C01 C02 C06 C09 C10 C11 C12 C16',
 'write_cgsmiles.py': 'C07 C08',
 'sample.py': 'C16 C17 C09',
 'cgsmiles_utils.py': 'C16 C17 C09 C03',
 'graph_layout.py': 'C19', 'graph_layout_utils.py': 'C19', 'linalg_functions.py': 'C19', 'drawing.py': 'C19',
 'rdkit.py': 'C18', 'coordinates.py': 'C18',
}
files = re.findall(r'^\+\+\+ b/cgsmiles/(\S+)', open(patch).read(), re.M)
props = sys.argv[3].split(',') if len(sys.argv) > 3 else sorted({p for f in files for p in MAP.get(f, 'C01 C04 C13 C16').split()})
rc, out = sh('git status --porcelain', wt)
assert not out.strip(), out
rc, out = sh('git apply %s' % patch, wt)
if rc:
    print('DOES NOT APPLY', out); sys.exit(2)
try:
    rc, out = sh('/venv/bin/python -m pytest -q -p no:cacheprovider -x 2>&1 | tail -1', wt)
    print('files', files, 'tests:', out.strip())
    for p in props:
        t0 = time.time()
        rc, out = sh('VERIF_REPO=%s ./check %s --tier quick --no-evidence' % (wt, p), '/verif')
        last = [l for l in out.splitlines() if l.startswith('property=')]
        first = [l for l in out.splitlines() if 'VIOLATION' in l or 'INCONCLUSIVE' in l][:2]
        print('%s exit %d %ds %s' % (p, rc, time.time() - t0, (last[-1][:160] if last else out[-300:])))
        for l in first:
            print('    ', l[:400])
finally:
    sh('git checkout -- . && git clean -fdq cgsmiles', wt)
