#!/venv/bin/python
"""Apply a seeded change to /repo, run the repository's tests and the given checks, and undo it again.

usage: tools/try_seed.py <patch.diff> [--props C01,C09] [--tier quick|thorough] [--demo demo.py]

Prints one line per step; never leaves /repo modified (git checkout -- . in a finally block).
"""
import argparse
import json
import os
import subprocess
import sys
import time

REPO = '/repo'
VERIF = os.path.dirname(os.path.dirname(os.path.abspath(__file__)))


def sh(cmd, cwd=None, timeout=3600):
    p = subprocess.run(cmd, shell=True, cwd=cwd, stdout=subprocess.PIPE, stderr=subprocess.STDOUT, text=True, timeout=timeout)
    return p.returncode, p.stdout


def main():
    ap = argparse.ArgumentParser()
    ap.add_argument('patch')
    ap.add_argument('--props', default='')
    ap.add_argument('--tier', default='quick')
    ap.add_argument('--demo')
    ap.add_argument('--json')
    ap.add_argument('--repo', default='/repo', help='checkout to patch (default /repo; a scratch worktree may be given)')
    args = ap.parse_args()
    global REPO
    REPO = args.repo
    rc, out = sh('git status --porcelain', cwd=REPO)
    if out.strip():
        print('refusing: /repo is not clean:\n' + out)
        return 2
    result = {'patch': args.patch, 'tier': args.tier, 'checks': {}}
    if args.demo:
        rc, out = sh('PBR_VERSION=0.0.0 PYTHONPATH=%s /venv/bin/python %s' % (REPO, args.demo), cwd=REPO)
        result['demo_without_change'] = rc
        print('demo without change: exit %d' % rc)
    rc, out = sh('git apply %s' % os.path.abspath(args.patch), cwd=REPO)
    if rc:
        print('patch does not apply:\n' + out)
        return 2
    try:
        rc, out = sh('/venv/bin/python -m pytest -q -p no:cacheprovider -x 2>&1 | tail -3', cwd=REPO)
        result['tests'] = out.strip().splitlines()[-1] if out.strip() else ''
        print('tests with change: ' + result['tests'])
        if args.demo:
            rc, out = sh('PBR_VERSION=0.0.0 PYTHONPATH=%s /venv/bin/python %s' % (REPO, args.demo), cwd=REPO)
            result['demo_with_change'] = rc
            print('demo with change: exit %d' % rc)
        for pid in [p for p in args.props.split(',') if p]:
            t0 = time.time()
            try:
                rc, out = sh('VERIF_REPO=%s ./check %s --tier %s --no-evidence' % (REPO, pid, args.tier), cwd=VERIF, timeout=2400)
            except subprocess.TimeoutExpired:
                sh("pkill -9 -f 'vf.cli %s' || true" % pid)
                rc, out = 124, 'timeout'

            viol = [l for l in out.splitlines() if l.startswith('VIOLATION')]
            summary = [l for l in out.splitlines() if l.startswith('property=')]
            clauses = [l.strip() for l in out.splitlines() if l.strip().startswith('clauses=')][:2]
            result['checks'][pid] = {'exit': rc, 'violations': len(viol), 'first': clauses, 'wall_s': round(time.time() - t0, 1)}
            print('%s: exit %d, %d VIOLATION lines, %.0fs %s' % (pid, rc, len(viol), time.time() - t0, (clauses[0][:160] if clauses else '')))
            if rc not in (0, 1):
                print('   ' + '\n   '.join(out.splitlines()[-4:]))
    finally:
        sh('git checkout -- .', cwd=REPO)
        rc, out = sh('git status --porcelain', cwd=REPO)
        if out.strip():
            print('WARNING: /repo not clean after undo:\n' + out)
    if args.json:
        with open(args.json, 'w') as fh:
            json.dump(result, fh, indent=1)
    return 0


if __name__ == '__main__':
    sys.exit(main())
