"""
G-graph: abstract syntax of the documented CGsmiles *graph* grammar
(docs/source/syntax/basic_graph_description.rst), a renderer that turns a
shape plus hole values into the string, and the graph the string denotes --
built by construction, never by calling the code under test.

Abstract syntax (plain JSON data, "shape"):

  chain  := [elem, ...]
  elem   := {'v': int,            identity of the node hole (name, annotation)
             'ord': None | id,    bond-order symbol written before this element
                                  (before '(' for the first element of a branch):
                                  absent, or the id of a hole over . - = # $
             'ann': form,         annotation form (ANN_FORMS)
             'nl': int,           length of the name hole
             'mult': None | id,   node multiplier  [#X]|n  (id of the count)
             'br': [branch, ...]}
  branch := {'chain': chain,
             'mult': None | id,   branch multiplier  (...)|n   (anchor + branch repeated)
             'pre': None | id}    symbol between ')' and '|' (order between consecutive anchors)
  shape  := {'chain': chain,
             'rings': [[v_i, v_j, kind, rord], ...]}   kind 'd' digit / 'p' %nn marker,
                                  rord 'n' | 's' symbol before the *opening* marker

Numbering is by order of appearance.  Ring bonds only join nodes that are not
inside a multiplied unit.
"""
import copy
import fractions
import itertools

import z3

from . import symx
from .symx import SymInt, SymReal, SymStr, band, sym_alnum, sym_char

SYMBOLS = '.-=#$'
SYM2ORD = {'.': 0, '-': 1, '=': 2, '#': 3, '$': 4}


def sym2ord(ch):
    """bond order denoted by an order symbol (documented table); ch may be symbolic"""
    if ch is None:
        return 1
    if isinstance(ch, SymStr):
        ch = ch._chs[0]
    if isinstance(ch, str):
        return SYM2ORD[ch]
    e = z3.IntVal(-1)
    for s, v in SYM2ORD.items():
        e = z3.If(ch == ord(s), v, e)
    return SymInt.mk(e)


def num_eq(a, b):
    """numeric equality: exact on symbolic terms, tolerant on concrete floats"""
    if symx.is_sym(a) or symx.is_sym(b):
        return a == b
    if isinstance(a, bool) or isinstance(b, bool) or a is None or b is None:
        return a == b
    if isinstance(a, (int, float, fractions.Fraction)) and isinstance(b, (int, float, fractions.Fraction)):
        fa, fb = float(a), float(b)
        return abs(fa - fb) <= 1e-9 * max(1.0, abs(fa), abs(fb))
    return a == b


def val_eq(a, b):
    if isinstance(a, (int, float, fractions.Fraction, SymInt, SymReal)) and not isinstance(a, bool):
        return num_eq(a, b)
    return a == b


# ---- tree enumeration ----------------------------------------------------
def _compositions(n):
    if n == 0:
        yield ()
        return
    for first in range(1, n + 1):
        for rest in _compositions(n - first):
            yield (first,) + rest


_TREES = {}


def ordered_trees(n):
    """all ordered rooted trees with n nodes as parent arrays in pre-order"""
    if n in _TREES:
        return _TREES[n]
    if n == 1:
        out = [[-1]]
    else:
        out = []
        for comp in _compositions(n - 1):
            for subs in itertools.product(*[ordered_trees(k) for k in comp]):
                par = [-1]
                for sub in subs:
                    off = len(par)
                    for p in sub:
                        par.append(0 if p == -1 else p + off)
                out.append(par)
    _TREES[n] = out
    return out


def children(parent):
    ch = [[] for _ in parent]
    for i, p in enumerate(parent):
        if p >= 0:
            ch[p].append(i)
    return ch


def tree_to_chain(parent, tail):
    """parent array (+ per node: is the last child written as chain continuation?) -> chain AST"""
    ch = children(parent)

    def chain_from(i):
        out = []
        while True:
            kids = ch[i]
            el = {'v': i, 'ord': None, 'ann': 'none', 'nl': 1, 'mult': None, 'br': []}
            out.append(el)
            cont = None
            for k, c in enumerate(kids):
                if tail[i] and k == len(kids) - 1:
                    cont = c
                else:
                    el['br'].append({'chain': chain_from(c), 'mult': None, 'pre': None})
            if cont is None:
                return out
            i = cont
    return chain_from(0)


def nesting(chain):
    return max([0] + [1 + nesting(b['chain']) for el in chain for b in el['br']])


def tree_shapes(n, max_nest=3):
    out = []
    for par in ordered_trees(n):
        ch = children(par)
        inner = [i for i in range(n) if ch[i]]
        for flags in itertools.product([True, False], repeat=len(inner)):
            tail = [False] * n
            for i, f in zip(inner, flags):
                tail[i] = f
            chain = tree_to_chain(par, tail)
            if nesting(chain) <= max_nest:
                out.append({'chain': chain, 'rings': [], 'parent': par})
    return out


def elems(chain):
    for el in chain:
        yield el
        for b in el['br']:
            yield from elems(b['chain'])


def ring_candidates(parent):
    n = len(parent)
    return [(i, j) for i in range(n) for j in range(i + 1, n) if parent[j] != i and parent[i] != j]


# ---- annotations ---------------------------------------------------------
# 'N:<key>' numeric hole, 'V:<key>' free value hole (2 alnum chars), literal text otherwise
ANN_FORMS = {
    'none': [],
    'q_kw': [';q=', 'N:q'],
    'q_pos': [';', 'N:q'],
    'qw_pos': [';', 'N:q', ';', 'N:w'],
    'w_kw': [';w=', 'N:w'],
    'wq_kw': [';w=', 'N:w', ';q=', 'N:q'],
    'free': [';m=', 'V:m'],
    'q_free': [';q=', 'N:q', ';lbl=', 'V:lbl'],
    # user-defined symbols are case sensitive and stored as written
    'free_uc': [';Mw=', 'V:Mw'],
    'free_case': [';n=', 'V:n', ';N=', 'V:N'],
}
# numeric spellings: 'S' sign hole (+/-), 'D' digit hole, every other character literal
NUM_FORMS = {'d': 'D', 'sd': 'SD', 'd.d': 'D.D', 'sd.d': 'SD.D', 'dd': 'DD', '.d': '.D', 'd.': 'D.',
             'sdd.dd': 'SDD.DD', 'ded': 'DeD', 'de-d': 'De-D', 'd.dE+d': 'D.DE+D', 'sdesd': 'SDeSD'}


def build_number(tag, form):
    items = []
    for k, c in enumerate(NUM_FORMS[form]):
        if c == 'S':
            items.append(sym_char("%s_s%d" % (tag, k), allowed='+-'))
        elif c == 'D':
            items.append(sym_char("%s_d%d" % (tag, k), lo=48, hi=57))
        else:
            items.append(c)
    return items


def number_value(s, form):
    """exact value of a rendered number (string concrete or symbolic) of a known form"""
    items = list(SymStr.lift(s)._chs)
    tmpl = NUM_FORMS[form]

    def sign_of(it):
        if isinstance(it, str):
            return -1 if it == '-' else 1
        return SymInt.mk(z3.If(it == 45, -1, 1))

    def digit(it):
        return (ord(it) - 48) if isinstance(it, str) else SymInt.mk(it - 48)
    epos = [k for k, c in enumerate(tmpl) if c in 'eE']
    mt, mi = (tmpl, items) if not epos else (tmpl[:epos[0]], items[:epos[0]])
    sign, mant, nfrac, seen_dot = 1, 0, 0, False
    for c, it in zip(mt, mi):
        if c == 'S' or c in '+-':
            sign = sign_of(it)
        elif c == '.':
            seen_dot = True
        else:
            mant = mant * 10 + digit(it)
            if seen_dot:
                nfrac += 1
    val = sign * mant

    def as_real(v, scale_num=1, scale_den=1):
        if isinstance(v, int):
            return fractions.Fraction(v * scale_num, scale_den)
        return SymReal.mk(z3.ToReal(v.e) * scale_num / scale_den)
    if not epos:
        return as_real(val, 1, 10 ** nfrac)
    et, ei = tmpl[epos[0] + 1:], items[epos[0] + 1:]
    esign, edig = 1, None
    for c, it in zip(et, ei):
        if c == 'S' or c in '+-':
            esign = sign_of(it)
        else:
            edig = digit(it) if edig is None else edig * 10 + digit(it)
    # case split over the (single digit) exponent and its sign: value = mantissa * 10^(+-e)
    result = None
    for sg in (1, -1):
        for ev in range(0, 10):
            num, den = (10 ** ev, 10 ** nfrac) if sg > 0 else (1, 10 ** (nfrac + ev))
            v = as_real(val, num, den)
            cond = symx.band(esign == sg, edig == ev)
            if cond is True:
                return v
            if cond is False:
                continue
            result = v if result is None else symx.ite(cond, v, result)
    return result


# ---- holes ---------------------------------------------------------------
def order_ids(shape):
    ids = []

    def visit(chain):
        for el in chain:
            if el.get('ord'):
                ids.append(el['ord'])
            for b in el['br']:
                if b.get('pre'):
                    ids.append(b['pre'])
                visit(b['chain'])
    visit(shape['chain'])
    out = []
    for i in ids:
        if i not in out:
            out.append(i)
    return out


def make_holes(shape, prefix='g', numform='sd.d', symbols=SYMBOLS):
    """create the symbolic hole values of a shape; returns the record (dict of SymStr/None)"""
    rec = {'name': {}, 'ann': {}, 'ord': {}, 'rord': [], 'rmark': [], 'numform': numform}
    for el in elems(shape['chain']):
        key = str(el['v'])
        if key in rec['name']:
            continue
        rec['name'][key] = SymStr.mk([sym_alnum("%s_n%s_%d" % (prefix, key, k)) for k in range(el.get('nl', 1))])
        vals = {}
        for piece in ANN_FORMS[el.get('ann', 'none')]:
            if piece.startswith('N:'):
                vals[piece[2:]] = SymStr.mk(build_number("%s_a%s%s" % (prefix, key, piece[2:]), numform))
            elif piece.startswith('V:'):
                vals[piece[2:]] = SymStr.mk([sym_alnum("%s_a%s%s_%d" % (prefix, key, piece[2:], k)) for k in range(2)])
        rec['ann'][key] = vals
    for oid in order_ids(shape):
        rec['ord'][oid] = SymStr([sym_char("%s_%s" % (prefix, oid), allowed=symbols)])
    for r, (a, b, kind, rord) in enumerate(shape['rings']):
        rec['rord'].append(SymStr([sym_char("%s_ro%d" % (prefix, r), allowed=symbols)]) if rord == 's' else None)
        if kind == 'd':
            rec['rmark'].append(SymStr([sym_char("%s_rm%d" % (prefix, r), lo=49, hi=57)]))
        else:
            rec['rmark'].append(SymStr(['%', sym_char("%s_rm%d_0" % (prefix, r), lo=48, hi=57),
                                        sym_char("%s_rm%d_1" % (prefix, r), lo=48, hi=57)]))
    return rec


def marker_value(s):
    """integer a ring marker denotes (digit, or the number after %)"""
    v = 0
    for d in SymStr.lift(s)._chs:
        if isinstance(d, str) and d == '%':
            continue
        v = v * 10 + ((ord(d) - 48) if isinstance(d, str) else SymInt.mk(d - 48))
    return v


def _chs(s):
    return SymStr.lift(s)._chs if s is not None else ()


def _ord(rec, oid):
    return rec['ord'][oid] if oid else None


# ---- rendering -----------------------------------------------------------
def render(shape, rec, mults=None, after_node=None):
    """-> (text between the braces as str/SymStr, side conditions)

    ``mults`` maps a multiplier id to its concrete count, written in decimal
    after '|'.  Side condition of the grammar: ring markers open at the same
    time denote different integers.
    """
    mults = mults or {}
    out = []
    open_now = []
    distinct = []
    rings = shape['rings']

    def node_text(el):
        key = str(el['v'])
        out.extend('[#')
        out.extend(_chs(rec['name'][key]))
        for piece in ANN_FORMS[el.get('ann', 'none')]:
            if piece.startswith('N:') or piece.startswith('V:'):
                out.extend(_chs(rec['ann'][key][piece[2:]]))
            else:
                out.extend(piece)
        out.append(']')
        here = []
        for r, (a, b, kind, _ro) in enumerate(rings):
            if b == el['v']:
                here.append((0 if kind == 'd' else 1, 0, r))
            if a == el['v']:
                here.append((0 if kind == 'd' else 1, 1, r))
        for _k, opening, r in sorted(here):
            if opening:
                for o in open_now:
                    distinct.append((o, r))
                open_now.append(r)
                out.extend(_chs(rec['rord'][r]))
            else:
                open_now.remove(r)
            out.extend(_chs(rec['rmark'][r]))
        if after_node:
            for extra in after_node.get(el['v'], []):
                out.extend(_chs(extra))

    def walk(chain, first_written):
        # the order symbol of a branch's first element is written before '('
        for ei, el in enumerate(chain):
            if not (ei == 0 and first_written):
                out.extend(_chs(_ord(rec, el.get('ord'))))
            node_text(el)
            if el.get('mult'):
                out.append('|')
                out.extend(str(mults[el['mult']]))
            for b in el['br']:
                out.extend(_chs(_ord(rec, b['chain'][0].get('ord'))))
                out.append('(')
                walk(b['chain'], True)
                out.append(')')
                if b.get('mult'):
                    out.extend(_chs(_ord(rec, b.get('pre'))))
                    out.append('|')
                    out.extend(str(mults[b['mult']]))
    walk(shape['chain'], True)
    conds = [marker_value(rec['rmark'][a]) != marker_value(rec['rmark'][b]) for a, b in distinct]
    return SymStr.mk(out), conds


# ---- denotation ----------------------------------------------------------
def denote(shape, rec, mults=None):
    """graph denoted by the string: (list of node attr dicts in order of appearance,
    {frozenset((i, j)): order}).  Multipliers are expanded per the documented
    meaning: ``U|n`` is U written n times; a multiplied branch repeats the anchor
    together with the branch, consecutive anchors joined with the order written
    between ')' and '|' (default 1); copies of a multiplied node are joined with
    order 1."""
    mults = mults or {}
    nodes = []
    edges = {}
    first_of = {}   # v -> node index (for ring bonds; only meaningful for non-multiplied nodes)
    occ = {}        # v -> node indices of all copies (ring bonds inside a multiplied unit exist once per copy)
    nf = rec.get('numform', 'sd.d')

    def new_node(el):
        key = str(el['v'])
        attrs = {'fragname': rec['name'][key], 'charge': 0.0, 'weight': 1.0}
        for k, val in rec['ann'].get(key, {}).items():
            if k == 'q':
                attrs['charge'] = number_value(val, nf)
            elif k == 'w':
                attrs['weight'] = number_value(val, nf)
            else:
                attrs[k] = val
        nodes.append(attrs)
        idx = len(nodes) - 1
        first_of.setdefault(el['v'], idx)
        occ.setdefault(el['v'], []).append(idx)
        return idx

    def link(a, b, order):
        if a is not None:
            edges[frozenset((a, b))] = order

    def walk(chain, anchor):
        prev = anchor
        for el in chain:
            order_in = sym2ord(_ord(rec, el.get('ord')))
            bm = [b for b in el['br'] if b.get('mult')]
            if bm:
                b = el['br'][0]     # anchor + its (single) branch repeated
                for r in range(mults[b['mult']]):
                    idx = new_node(el)
                    link(prev, idx, order_in if r == 0 else sym2ord(_ord(rec, b.get('pre'))))
                    walk(b['chain'], idx)
                    prev = idx
                continue
            for r in range(mults[el['mult']] if el.get('mult') else 1):
                idx = new_node(el)
                link(prev, idx, order_in if r == 0 else 1)
                prev = idx
            for b in el['br']:
                walk(b['chain'], prev)
        return prev
    walk(shape['chain'], None)
    for r, (a, b, _kind, _ro) in enumerate(shape['rings']):
        if len(occ[a]) == len(occ[b]):
            # both ends in the same multiplied unit (or in none): one ring bond per copy of the unit
            for ia, ib in zip(occ[a], occ[b]):
                edges[frozenset((ia, ib))] = sym2ord(rec['rord'][r])
        else:
            edges[frozenset((first_of[a], first_of[b]))] = sym2ord(rec['rord'][r])
    return nodes, edges


AVOID_DOUBLE_CLOSE = False


def no_double_close(shape):
    """equivalent spelling in which no branch closes directly after a nested
    branch ('))'): the last nested branch of a branch's last element is written
    as chain continuation instead.  Hole ids are unchanged."""
    s = copy.deepcopy(shape)
    if not AVOID_DOUBLE_CLOSE:
        # the reader defect that made this necessary is repaired in /repo (see known_findings.json, fixed:);
        # the generators now keep the '))' spellings
        return s

    def fix(chain, in_branch):
        for el in chain:
            for b in el['br']:
                fix(b['chain'], True)
        while in_branch and chain[-1]['br'] and not chain[-1]['br'][-1].get('mult'):
            last = chain[-1]
            b = last['br'].pop()
            chain.extend(b['chain'])
    fix(s['chain'], False)
    return s


def graph_matches(g, nodes, edges):
    """clauses comparing a networkx graph with a denotation (numbering-sensitive)"""
    clauses = []
    n = len(nodes)
    ok_nodes = sorted(g.nodes) == list(range(n)) and list(g.nodes) == list(range(n))
    clauses.append(('node_numbering', ok_nodes))
    if not ok_nodes:
        return clauses
    for i, attrs in enumerate(nodes):
        got = g.nodes[i]
        keys_ok = sorted(got.keys()) == sorted(attrs.keys())
        clauses.append(('node_attr_keys', keys_ok))
        if keys_ok:
            clauses.append(('node_attr_values', band(*[val_eq(got[k], v) for k, v in attrs.items()])))
    got_edges = {frozenset(e) for e in g.edges}
    clauses.append(('edge_set', got_edges == set(edges)))
    if got_edges == set(edges):
        for e, order in edges.items():
            a, b = tuple(e)
            clauses.append(('edge_order', g.edges[a, b].get('order', None) == order))
    return clauses


def iso_clause(g1, g2, node_eq, edge_eq, concrete_label=None):
    """symbolic isomorphism: structure is concrete, attribute equalities may be terms.
    Returns one condition: OR over structure-preserving bijections of AND of attribute equalities.
    ``concrete_label(attrs)`` may give a concrete node label that has to agree (prunes the bijections)."""
    from networkx.algorithms.isomorphism import GraphMatcher
    if len(g1) != len(g2) or g1.number_of_edges() != g2.number_of_edges():
        return False
    alts = []
    nm = (lambda a, b: concrete_label(a) == concrete_label(b)) if concrete_label else None
    for mp in GraphMatcher(g1, g2, node_match=nm).isomorphisms_iter():
        cs = [node_eq(g1.nodes[n], g2.nodes[mp[n]]) for n in g1.nodes]
        cs += [edge_eq(g1.edges[u, v], g2.edges[mp[u], mp[v]]) for u, v in g1.edges]
        c = band(*cs)
        if c is True:
            return True
        alts.append(c)
    return symx.bor(*alts)
