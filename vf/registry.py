"""property id -> Prop instance (lazy import of vf.props.cXX)"""
import importlib

_CACHE = {}


def get(pid):
    pid = pid.upper()
    if pid not in _CACHE:
        mod = importlib.import_module('vf.props.%s' % pid.lower())
        _CACHE[pid] = mod.PROP
    return _CACHE[pid]
