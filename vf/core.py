"""
Generic machinery shared by all property checks: the property protocol, the
per-shape exploration loop (symbolic run -> solver verdict -> witness check
against the real code -> replay of counterexamples), the parallel driver,
evidence and replay files, known findings.
"""
import fractions
import hashlib
import json
import multiprocessing
import os
import sys
import time
import traceback

import z3

from . import symx
from .symx import (Engine, PathAbort, Unsupported, band, bnot, bor, concretize,
                   is_sym, mkbool, set_engine, unwrap_bool)
from . import loader

VERIF = os.path.dirname(os.path.dirname(os.path.abspath(__file__)))
EXIT_OK, EXIT_VIOLATION, EXIT_INCONCLUSIVE = 0, 1, 2


# --------------------------------------------------------------------------
# observation helpers
# --------------------------------------------------------------------------
def guard(fn, *a, **kw):
    """run fn; exceptions become part of the observation"""
    try:
        return ('ok', fn(*a, **kw))
    except z3.Z3Exception as exc:
        raise Unsupported("z3 error inside the code under test: %r" % (exc,))
    except Exception as exc:   # BaseException (PathAbort/Unsupported) passes through
        return ('exc', type(exc).__name__)


def _num(x):
    if isinstance(x, bool):
        return x
    if isinstance(x, (int,)):
        return x
    if isinstance(x, fractions.Fraction):
        if x.denominator == 1:
            return int(x)
        return round(float(x), 9)
    if isinstance(x, float):
        if x == int(x) and abs(x) < 1e15:
            return int(x)
        return round(x, 9)
    return x


def norm(x):
    """canonical, comparable, JSON-able form of an observation"""
    import networkx as nx
    try:
        import numpy as np
    except ImportError:  # pragma: no cover
        np = None
    if isinstance(x, (bool, type(None), str)):
        return x
    if isinstance(x, (int, float, fractions.Fraction)):
        return _num(x)
    if np is not None and isinstance(x, np.generic):
        return _num(x.item())
    if np is not None and isinstance(x, np.ndarray):
        return [norm(i) for i in x.tolist()]
    if isinstance(x, (list, tuple)):
        return [norm(i) for i in x]
    if isinstance(x, (set, frozenset)):
        return sorted((norm(i) for i in x), key=repr)
    if isinstance(x, dict):
        return {'__dict__': sorted(([norm(k), norm(v)] for k, v in x.items()), key=lambda kv: repr(kv[0]))}
    if isinstance(x, nx.Graph):
        nodes = [[norm(n), norm(d)] for n, d in x.nodes(data=True)]
        edges = []
        for a, b, d in x.edges(data=True):
            a, b = norm(a), norm(b)
            if repr(b) < repr(a):
                a, b = b, a
            edges.append([a, b, norm(d)])
        edges.sort(key=repr)
        return {'__graph__': [nodes, edges]}
    return repr(type(x))


def jsonable(x):
    if isinstance(x, fractions.Fraction):
        return {'__frac__': [x.numerator, x.denominator]}
    if isinstance(x, (list, tuple)):
        return [jsonable(i) for i in x]
    if isinstance(x, dict):
        return {str(k): jsonable(v) for k, v in x.items()}
    return x


def unjson(x):
    if isinstance(x, dict):
        if '__frac__' in x:
            return fractions.Fraction(*x['__frac__'])
        return {k: unjson(v) for k, v in x.items()}
    if isinstance(x, list):
        return [unjson(i) for i in x]
    return x


def to_float(x):
    return float(x) if isinstance(x, fractions.Fraction) else x


# --------------------------------------------------------------------------
# property protocol
# --------------------------------------------------------------------------
class Prop:
    ID = None
    MODULES = loader.CORE
    FUNCTIONS = []          # functions whose rewritten source is executed symbolically
    STUBS = []
    ASSUMPTIONS = []
    OUTSIDE = []            # what lies outside the claim
    BOUNDS = {'quick': '', 'thorough': ''}
    MAX_PATHS = 20000       # per shape; exceeding it is inconclusive, never success
    SHAPE_SECONDS = 900     # wall-clock guard per shape; exceeding it is inconclusive, never success
    MUTANTS = {}            # name -> {module: (old, new)} for the sensitivity self-test
    LEVEL_TEXT = ''
    LEVEL_NOTE = ('trusted: z3, the symx value model (validated per path against the real code and on the '
                  "repo's own test inputs), pysmiles/networkx run natively; bounds as stated in the evidence")
    TECHNIQUE = 'bounded symbolic execution of the real source (symx) + z3'

    def shapes(self, tier):
        raise NotImplementedError

    def build(self, shape):
        """create holes; return the input record (plain data with symbolic leaves)"""
        raise NotImplementedError

    def execute(self, M, shape, inp):
        """run the code under test from module namespace M; return the observation"""
        raise NotImplementedError

    def oracle(self, shape, inp, obs):
        """list of (clause name, condition); conditions may be symbolic"""
        raise NotImplementedError

    def classify(self, shape, cinp, cobs, clause):
        """known-finding id for a reproduced violation, or None"""
        return None

    def sample(self, shape, cinp):
        return cinp

    def setup_shadow(self, SH):
        """install summaries / environment stubs on the freshly loaded shadow package"""
        symx.RT.call_hooks = []
        symx.RT.set_order_hook = None

    def setup_orig(self, OR):
        pass

    def shape_key(self, shape):
        return json.dumps(shape, sort_keys=True, default=str)


# --------------------------------------------------------------------------
# line coverage of the shadow modules (sys.monitoring; ~free after first hit)
# --------------------------------------------------------------------------
_COV = set()
_COV_ON = False


def coverage_start():
    global _COV_ON
    if _COV_ON or not hasattr(sys, 'monitoring'):
        return
    mon = sys.monitoring
    tool = mon.COVERAGE_ID
    try:
        mon.use_tool_id(tool, 'vf')
    except ValueError:
        return
    repo_prefix = os.path.join(loader.REPO, 'cgsmiles') + os.sep

    def on_line(code, line):
        fn = code.co_filename
        if fn.startswith(repo_prefix) and _COV_ACTIVE[0]:
            _COV.add((os.path.basename(fn), line))
            return mon.DISABLE
        if not fn.startswith(repo_prefix):
            return mon.DISABLE
        return None
    mon.register_callback(tool, mon.events.LINE, on_line)
    mon.set_events(tool, mon.events.LINE)
    _COV_ON = True


_COV_ACTIVE = [False]


# --------------------------------------------------------------------------
# per-shape exploration
# --------------------------------------------------------------------------
def _digest(obj):
    return hashlib.sha1(json.dumps(obj, sort_keys=True, default=str).encode()).hexdigest()[:12]


import contextlib
import io


@contextlib.contextmanager
def _quiet():
    """the repository prints diagnostics on some error paths; keep the check's stdout clean"""
    with contextlib.redirect_stdout(io.StringIO()):
        yield


def eval_clauses(clauses):
    """all-concrete oracle evaluation -> list of violated clause names"""
    bad = []
    for name, cond in clauses:
        c = unwrap_bool(cond)
        if not isinstance(c, bool):
            raise RuntimeError("oracle produced a symbolic condition on concrete data: %s" % name)
        if not c:
            bad.append(name)
    return bad


def explore_shape(prop, SH, OR, shape, validate=True, max_paths=None):
    """Exhaust the decision tree of one shape.  Returns a result dict."""
    eng = set_engine(Engine())
    res = dict(shape=shape, paths=0, aborted=0, reached=0, queries=0, validated=0,
               ces=[], inconclusive=[], mismatches=[], sample=None, clauses={})
    max_paths = max_paths or prop.MAX_PATHS
    t0 = time.time()
    while True:
        eng.start_run()
        inp = obs = None
        loader.reset_state(SH)
        loader.reset_state(OR)
        try:
            _COV_ACTIVE[0] = True
            inp = prop.build(shape)
            obs = prop.execute(SH, shape, inp)
            _COV_ACTIVE[0] = False
            clauses = prop.oracle(shape, inp, obs)
            # reachability twin: the assertion point is reached with a satisfiable
            # path condition (assert False must be violated); its model doubles as
            # the witness for validation against the real implementation
            extra = prop.witness_constraints(shape, inp) if hasattr(prop, 'witness_constraints') else None
            if extra:
                eng.solver.push()
                for c in extra:
                    eng.solver.add(c)
                wit = eng.check(False)
                eng.solver.pop()
                eng._model = None
            else:
                wit = eng.check(False)
            if wit is None:
                raise PathAbort()
            res['reached'] += 1
            cinp = concretize(inp, wit)
            if res['sample'] is None:
                res['sample'] = prop.sample(shape, cinp)
            if validate and not (hasattr(prop, 'skip_validation') and prop.skip_validation(shape, inp)):
                with _quiet():
                    cobs = prop.execute(OR, shape, cinp)
                sym_obs = norm(concretize(obs, wit))
                real_obs = norm(cobs)
                if sym_obs != real_obs:
                    res['mismatches'].append(dict(input=jsonable(cinp), symbolic=sym_obs, real=real_obs))
                else:
                    res['validated'] += 1
                if hasattr(prop, 'witness_clauses'):
                    # environment kernels that the symbolic run over-approximates: the solver's witness of this path is also
                    # run through the unmodified kernels; a clause that fails there is a counterexample candidate like any
                    # other (it is replayed and judged by the concrete oracle before anything is printed)
                    with _quiet():
                        wcl = prop.witness_clauses(OR, shape, cinp)
                    for name, ok in wcl:
                        if not ok:
                            res['ces'].append(dict(clause=name, input=jsonable(cinp)))
                            break
            for name, cond in clauses:
                res['clauses'][name] = res['clauses'].get(name, 0) + 1
                m = eng.check(cond)
                res['queries'] += 1
                if m is not None and extra:
                    # the counterexample has to be a realisable input (same side constraints as the witness)
                    eng.solver.push()
                    for c in extra:
                        eng.solver.add(c)
                    m2 = eng.check(cond)
                    eng.solver.pop()
                    eng._model = None
                    if m2 is None:
                        res['inconclusive'].append("clause %s: violated only outside the realisable witness family" % name)
                        continue
                    m = m2
                if m is not None:
                    ci = concretize(inp, m)
                    res['ces'].append(dict(clause=name, input=jsonable(ci)))
                    break
        except PathAbort:
            res['aborted'] += 1
        except Unsupported as exc:
            res['inconclusive'].append("unsupported: %s" % exc)
        except RecursionError as exc:
            res['inconclusive'].append("recursion: %s" % exc)
        except Exception as exc:
            tb = traceback.format_exc(limit=6)
            res['inconclusive'].append("harness error: %r\n%s" % (exc, tb))
        finally:
            _COV_ACTIVE[0] = False
        res['paths'] += 1
        if not eng.finish_run():
            break
        if res['paths'] >= max_paths:
            res['inconclusive'].append("path bound %d exceeded" % max_paths)
            break
        if len(res['inconclusive']) > 20:
            res['inconclusive'].append("stopped early: too many inconclusive paths")
            break
        if len(res['ces']) >= 5:
            break       # the verdict for this shape is settled: counterexamples found (they still have to replay)
        if time.time() - t0 > prop.SHAPE_SECONDS:
            res['inconclusive'].append("time bound %ds for one shape exceeded after %d paths" % (prop.SHAPE_SECONDS, res['paths']))
            break
    res['wall'] = time.time() - t0
    res['solver_s'] = eng.stats['solver_s']
    res['checks'] = eng.stats['checks']
    res['branches'] = eng.stats['branches']
    res['forks'] = eng.stats['forks']
    res['summary_paths'] = eng.stats.get('summary_paths', 0)
    res['extra'] = prop.extra_counts() if hasattr(prop, 'extra_counts') else {}
    if res['reached'] == 0 and not res['inconclusive'] and not getattr(prop, 'ALLOW_VACUOUS', False):
        res['inconclusive'].append("vacuous: no path reached the assertion")
    return res


def replay_record(prop, OR, shape, cinp, clause=None):
    """run the real code on a concrete input; return (violated clause names, obs)"""
    loader.reset_state(OR)
    with _quiet():
        cobs = prop.execute(OR, shape, cinp)
    clauses = prop.oracle(shape, cinp, cobs)
    if hasattr(prop, 'replay_extra'):
        clauses = list(clauses) + list(prop.replay_extra(shape, cinp, clause))
    return eval_clauses(clauses), cobs


# --------------------------------------------------------------------------
# worker pool
# --------------------------------------------------------------------------
_W = {}


def _worker_init(prop_id, mutant):
    # an initialiser that raises makes multiprocessing respawn the worker for ever: keep the error and let every task
    # of this worker report it as inconclusive instead
    try:
        _worker_init_inner(prop_id, mutant)
    except BaseException as exc:
        from . import registry
        _W.update(prop=registry.get(prop_id), SH=None, OR=None, mutant=mutant,
                  init_error="worker initialisation failed: %r %s" % (exc, traceback.format_exc(limit=8)))


def _worker_init_inner(prop_id, mutant):
    from . import registry
    prop = registry.get(prop_id)
    mutate = None
    if mutant:
        spec = prop.MUTANTS[mutant]
        mutate = {}
        for mod, (old, new) in spec.items():
            def mk(old=old, new=new):
                def f(src):
                    if src.count(old) != 1:
                        raise RuntimeError("mutant anchor not unique: %r" % old)
                    return src.replace(old, new)
                return f
            mutate[mod] = mk()
    coverage_start()
    symx.CROSS['every'] = int(os.environ.get('VERIF_CROSSCHECK', '0') or 0)
    SH = loader.load_shadow(prop.MODULES, mutate=mutate)
    OR = loader.load_orig(prop.MODULES)
    prop.setup_shadow(SH)
    prop.setup_orig(OR)
    loader.snapshot_state(SH, prop.MODULES)
    loader.snapshot_state(OR, prop.MODULES)
    _W.update(prop=prop, SH=SH, OR=OR, mutant=mutant)


def _worker_run(task):
    idx, shape, validate = task
    prop = _W['prop']
    try:
        sys.setrecursionlimit(20000)
        if _W.get('init_error'):
            raise RuntimeError(_W['init_error'])
        res = explore_shape(prop, _W['SH'], _W['OR'], shape, validate=validate and not _W['mutant'])
    except BaseException as exc:   # never let a worker die silently
        res = dict(shape=shape, paths=0, aborted=0, reached=0, queries=0, validated=0, ces=[],
                   inconclusive=["worker error: %r %s" % (exc, traceback.format_exc(limit=8))],
                   mismatches=[], sample=None, clauses={}, wall=0, solver_s=0, checks=0,
                   branches=0, forks=0, summary_paths=0)
    res['idx'] = idx
    res['cov'] = sorted(_COV)
    res['cross'] = list(symx.CROSS['files'])
    symx.CROSS['files'] = []
    return res


def run_pool(prop_id, shapes, jobs, mutant=None, validate=True, progress=None):
    tasks = [(i, s, validate) for i, s in enumerate(shapes)]
    if jobs <= 1:
        _worker_init(prop_id, mutant)
        for t in tasks:
            r = _worker_run(t)
            if progress:
                progress(r)
            yield r
        return
    ctx = multiprocessing.get_context('fork')
    with ctx.Pool(jobs, initializer=_worker_init, initargs=(prop_id, mutant)) as pool:
        for r in pool.imap_unordered(_worker_run, tasks, chunksize=1):
            if progress:
                progress(r)
            yield r


# --------------------------------------------------------------------------
# known findings
# --------------------------------------------------------------------------
def load_known(prop_id):
    path = os.path.join(VERIF, 'known_findings.json')
    if not os.path.exists(path):
        return {}, []
    with open(path) as fh:
        data = json.load(fh)
    open_ = {f['id']: f for f in data.get('findings', []) if f['property'] == prop_id}
    fixed = [f for f in data.get('fixed', []) if ('property=%s ' % prop_id) in f]
    return open_, fixed


# --------------------------------------------------------------------------
# function line tables (for "lines reached" in the evidence)
# --------------------------------------------------------------------------
def function_lines(modules):
    import ast
    out = {}
    for name in modules:
        src = loader.read_source(name)
        tree = ast.parse(src)
        for node in ast.walk(tree):
            if isinstance(node, (ast.FunctionDef,)):
                lines = set()
                for sub in ast.walk(node):
                    if isinstance(sub, ast.stmt) and not isinstance(sub, (ast.FunctionDef, ast.ClassDef)):
                        if isinstance(sub, ast.Expr) and isinstance(sub.value, ast.Constant) and isinstance(sub.value.value, str):
                            continue
                        lines.add(sub.lineno)
                out[(name + '.py', node.name)] = lines
    return out


# --------------------------------------------------------------------------
# translator validation: the repo's own test inputs through the rewritten and the original modules
# --------------------------------------------------------------------------
def repo_test_strings():
    import ast
    import glob
    out = []
    for path in sorted(glob.glob(os.path.join(loader.REPO, 'cgsmiles', 'tests', '*.py'))):
        try:
            tree = ast.parse(open(path).read())
        except SyntaxError:
            continue
        for node in ast.walk(tree):
            if isinstance(node, ast.Constant) and isinstance(node.value, str):
                v = node.value
                if 0 < len(v) < 400 and ('{' in v or '[' in v) and '\n' not in v and v not in out:
                    out.append(v)
    return out


def translator_validation():
    """all-concrete differential run: every string literal of the repo's tests that looks like CGsmiles/SMILES text
    is pushed through the rewritten modules and the original ones; results (graphs, dicts, exception types) must agree"""
    symx.RT.call_hooks = []
    symx.RT.set_order_hook = None
    SH = loader.load_shadow(loader.CORE, pkgname='sxcg_tv')
    OR = loader.load_orig(loader.CORE)
    set_engine(Engine()).start_run()

    def drivers(M):
        def resolve_all(s):
            meta, mol = M.resolve.MoleculeResolver.from_string(s).resolve_all()
            return [norm(meta_summary(meta)), norm(mol)]

        def resolve_cg(s):
            meta, mol = M.resolve.MoleculeResolver.from_string(s, last_all_atom=False).resolve_all()
            return norm(mol)

        def strip(s):
            a, b, c, d = M.read_fragments.strip_bonding_descriptors(s)
            return [a, norm(dict(b)), norm(c), norm({k: dict(v) for k, v in d.items()})]
        return [('read_cgsmiles', lambda s: norm(M.read_cgsmiles.read_cgsmiles(s))),
                ('strip_bonding_descriptors', strip),
                ('read_fragments', lambda s: norm({k: g for k, g in M.read_fragments.read_fragments(s).items()})),
                ('resolve_all', resolve_all), ('resolve_all_cg', resolve_cg),
                ('write_graph', lambda s: M.write_cgsmiles.write_cgsmiles_graph(M.read_cgsmiles.read_cgsmiles(s)))]

    def meta_summary(meta):
        return {k: {a: b for a, b in d.items() if a != 'graph'} for k, d in meta.nodes(data=True)}
    n = 0
    bad = []
    dsh, dor = drivers(SH), drivers(OR)
    with _quiet():
        for s in repo_test_strings():
            for (name, f1), (_n2, f2) in zip(dsh, dor):
                n += 1
                r1, r2 = guard(f1, s), guard(f2, s)
                if r1 != r2:
                    bad.append((name, s, r1, r2))
    return n, bad


# --------------------------------------------------------------------------
# cross-solver re-decision of sampled assertion queries (thorough tier)
# --------------------------------------------------------------------------
def cross_check(files, limit=60, timeout=20):
    """re-decide dumped queries with the z3 4.8.12 and cvc5 1.0 binaries; -> summary dict"""
    import shutil
    import subprocess
    files = list(files)
    step = max(1, len(files) // limit)
    chosen = files[::step][:limit]
    out = dict(dumped=len(files), redecided=len(chosen), agree_z3_4_8=0, agree_cvc5=0, unknown_or_error=0, disagreements=[])
    solvers = [('z3_4_8', ['/usr/bin/z3', '-T:%d' % timeout]), ('cvc5', ['cvc5', '--tlimit=%d' % (timeout * 1000)])]
    for path, verdict in chosen:
        for name, cmd in solvers:
            try:
                p = subprocess.run(cmd + [path], stdout=subprocess.PIPE, stderr=subprocess.STDOUT, text=True, timeout=timeout + 10)
                txt = p.stdout.strip()
            except (subprocess.TimeoutExpired, OSError):
                txt = 'timeout'
            first = txt.splitlines()[0].strip() if txt else ''
            if '(error' in txt or first not in ('sat', 'unsat'):
                out['unknown_or_error'] += 1
            elif first == verdict:
                out['agree_' + name] += 1
            else:
                out['disagreements'].append(dict(solver=name, said=first, z3_5_1=verdict, query=open(path).read()[:2000]))
    for d in {os.path.dirname(p) for p, _ in files}:
        shutil.rmtree(d, ignore_errors=True)
    return out


# --------------------------------------------------------------------------
# second engine on leaf kernels (CrossHair); recorded only, never decides a property
# --------------------------------------------------------------------------
def crosshair_kernels(files, per_condition_timeout=90):
    import subprocess
    deps = os.path.join(VERIF, '.deps_crosshair')
    if not os.path.isdir(os.path.join(deps, 'crosshair')):
        return {'status': 'crosshair not installed (setup.sh installs it from the offline wheelhouse)'}
    out = {}
    env = dict(os.environ, PYTHONPATH=deps + os.pathsep + loader.REPO, PBR_VERSION='0.0.0')
    for f in files:
        path = os.path.join(VERIF, 'vf', 'crosshair_kernels', f)
        try:
            p = subprocess.run([sys.executable, '-m', 'crosshair', 'check', '--report_all',
                                '--per_condition_timeout', str(per_condition_timeout), path],
                               stdout=subprocess.PIPE, stderr=subprocess.STDOUT, text=True, env=env, cwd=VERIF, timeout=1200)
            lines = [l.split(': ', 2)[-1] for l in p.stdout.splitlines() if path in l]
            out[f] = {'confirmed_over_all_paths': sum('Confirmed over all paths' in l for l in lines),
                      'other': [l for l in lines if 'Confirmed over all paths' not in l][:5]}
        except (subprocess.TimeoutExpired, OSError) as exc:
            out[f] = {'error': repr(exc)}
    return out
