"""entry point of ./check: whatever goes wrong in the machinery itself (including while importing it) is exit 2
(inconclusive); exit 1 is reserved for a violation that was replayed on the real code and printed as a VIOLATION line"""
import sys


def _main():
    try:
        from . import cli
        rc = cli.main()
    except SystemExit as exc:
        code = exc.code
        if code in (0, None):
            rc = 0
        elif code == 1:
            rc = 2          # a verdict is only ever the *return value* of cli.main; an exit(1) from elsewhere is not one
        else:
            rc = code if isinstance(code, int) else 2
    except BaseException:
        import traceback
        traceback.print_exc()
        print("HARNESS ERROR: inconclusive", file=sys.stderr)
        rc = 2
    sys.stdout.flush()
    sys.exit(rc)


if __name__ == '__main__':
    _main()
