"""
Shared harness pieces for the resolver properties (C01, C02, C03, C06, C09, C10,
C11, C12, C15): fragmentation cases built from spec-side molecules (gen_mol),
their rendering with symbolic descriptor holes, the resolver drive and the
extraction of a plain-data observation.
"""
import itertools

import networkx as nx
import z3

from . import gen_mol as gm, symx
from .symx import SymInt, SymStr, band, bor, cat, sym_alnum, sym_char

COMPLEMENT = {'$': '$', '>': '<', '<': '>', '!': '!'}
ORDER_SYMBOL = {1: '', 2: '=', 3: '#'}

# molecules: SMILES of the generator's subset (heavy atoms); hydrogens are implicit
MOLS_SMALL = ['CC', 'CO', 'CCO', 'C=C', 'C#N', 'CC(C)C', 'C1CC1', 'CC(=O)O', 'C[NH3+]', 'CC[O-]', 'CCl', 'OCC=C',
              'C1CCC1', 'CSC', 'BrCCF', 'NCCO', 'c1ccccc1', 'CC1CC1', 'Sc1ccccc1']
MOLS_MEDIUM = ['c1ccccc1', 'Cc1ccccc1', 'C1CCCCC1', 'CC(C)(C)C', 'OC(=O)CC', 'C1CC1CO', 'CC=CC', 'C#CCO', 'CP(C)C',
               'CS(=O)(=O)C', 'C[N+](C)(C)C', 'O=C([O-])C', 'N1CCC1', 'ClC(Cl)Cl', 'C1CC2CC12', 'c1ccncc1', 'OCCOCCO']
MOLS_LARGE = ['CSc1ccccc1', 'CCc1ccccc1', 'c1ccc2ccccc2c1', 'C1CCC2CCCC2C1', 'CC(C)Cc1ccccc1', 'OC(=O)c1ccccc1', 'CCOC(=O)C(C)=C',
              'C1CCOC1CO', 'NC(C)C(=O)O']


def complement_char(k):
    """the kind that pairs with kind k ($ with $, > with <); k may be a symbolic char"""
    if isinstance(k, str):
        return COMPLEMENT[k]
    return z3.simplify(z3.If(k == ord('>'), ord('<'), z3.If(k == ord('<'), ord('>'), k)))


# ---- cases -----------------------------------------------------------------
def make_case(smiles, cut, comps, opts=None):
    """shape (plain JSON) for: molecule, the cut bonds, the blocks, rendering options"""
    opts = dict(opts or {})
    return {'smiles': smiles, 'cut': [list(c) for c in cut], 'blocks': [list(c) for c in comps], 'opts': opts}


def cases_for(smiles, max_frag=3, max_cut_pair=2, limit=None):
    mol = gm.parse_smiles(smiles)
    parts = gm.partitions(mol, max_frag=max_frag, max_cut_pair=max_cut_pair)
    out = []
    for cut, comps in parts:
        out.append((cut, comps))
    if limit:
        out = out[:limit]
    return out


def base_graph_text(nblocks, cut_pairs, root=0, rev=False, names=None, extra_nodes=None):
    """CGsmiles text of the base graph: one node per block, edge order = number of cut bonds.
    -> (text pieces list, order of appearance of the blocks).  No '))' is produced."""
    adj = {i: {} for i in range(nblocks)}
    for (a, b), n in cut_pairs.items():
        adj[a][b] = n
        adj[b][a] = n
    order_sym = {1: '', 2: '=', 3: '#', 4: '$'}
    seen = []
    out = []
    ring_edges = []
    visited = set()
    tree = {i: [] for i in range(nblocks)}

    def dfs(a, parent):
        visited.add(a)
        seen.append(a)
        nbrs = sorted(adj[a], reverse=rev)
        for b in nbrs:
            if b == parent:
                continue
            if b in visited:
                key = (min(a, b), max(a, b))
                if key not in [r[0] for r in ring_edges]:
                    ring_edges.append((key, adj[a][b]))
                continue
            tree[a].append(b)
            dfs(b, a)
    comps_roots = []
    for start in [root] + [i for i in range(nblocks) if i != root]:
        if start not in visited:
            comps_roots.append(start)
            dfs(start, None)
    ring_of = {}
    for k, (key, n) in enumerate(ring_edges, 1):
        for end in key:
            ring_of.setdefault(end, []).append((k, n, key))
    opened = set()

    def emit(a):
        out.append(('node', a))
        for (k, n, key) in ring_of.get(a, []):
            if key not in opened:
                opened.add(key)
                if order_sym[n]:
                    out.append(('sym', order_sym[n]))
            out.append(('sym', str(k)))
        kids = tree[a]
        for i, b in enumerate(kids):
            last = i == len(kids) - 1
            s = order_sym[adj[a][b]]
            if s:
                out.append(('sym', s))
            if not last:
                out.append(('sym', '('))
            emit(b)
            if not last:
                out.append(('sym', ')'))
    for i, r in enumerate(comps_roots):
        if i:
            out.append(('sym', '.'))
        emit(r)
    return out, seen


class Rendered:
    """result of rendering a case: text (symbolic), the record of hole values, bookkeeping"""


def render_case(shape, prefix='c', kinds='$<>', label_len=1, distinct_labels=True, name_of=None,
                single_fragment=False, indep_labels=False):
    """Build the CGsmiles string of a fragmentation case.

    Per cut bond: a kind hole (one of ``kinds``; the partner gets the complement),
    a label hole of ``label_len`` alnum characters, the order symbol of the bond.
    Options in shape['opts']: start (per block start atom choice index), child (0/1 child order),
    after_ring (descriptor written after ring digits instead of directly after the atom),
    lead (descriptor of the first atom written leading), root/rev for the base graph.
    """
    mol = gm.parse_smiles(shape['smiles'])
    opts = shape.get('opts', {})
    blocks = [list(b) for b in shape['blocks']]
    cuts = [tuple(c) for c in shape['cut']]
    # shared-atom cuts: [cut index, end] -- the atom at that end of the cut bond is duplicated into the
    # other fragment; the duplicate and the original carry a '!' pair instead of an ordinary pair
    shared_pairs = []
    if shape.get('shared'):
        mol = mol.copy()
        shared_idx = set()
        for ci, end in shape['shared']:
            i, j = cuts[ci]
            keep, dup = (i, j) if end == 1 else (j, i)       # dup is duplicated into keep's fragment
            order = mol.bonds.pop((min(i, j), max(i, j)))
            mol.atoms.append(dict(mol.atoms[dup]))
            new = len(mol.atoms) - 1
            mol.add_bond(keep, new, order)
            for b in blocks:
                if keep in b:
                    b.append(new)
            shared_pairs.append((new, dup))
            shared_idx.add(ci)
        cuts = [c for ci, c in enumerate(cuts) if ci not in shared_idx]
    where = {a: bi for bi, b in enumerate(blocks) for a in b}
    holes = {'kind': [], 'label': []}
    desc_on = {}     # atom -> list of (kind item, label items, order)
    for ci, (i, j) in enumerate(cuts):
        order = mol.bonds[(i, j)]
        k = sym_char("%s_k%d" % (prefix, ci), allowed=kinds) if len(kinds) > 1 else kinds
        lab = [sym_alnum("%s_l%d_%d" % (prefix, ci, x)) for x in range(label_len)]
        holes['kind'].append(SymStr.mk([k]))
        holes['label'].append(SymStr.mk(lab))
        desc_on.setdefault(i, []).append((k, lab, order))
        # indep_labels: the partner carries a label of its own (only meaningful under the label-insensitive convention)
        lab2 = [sym_alnum("%s_m%d_%d" % (prefix, ci, x)) for x in range(label_len)] if indep_labels else lab
        desc_on.setdefault(j, []).append((complement_char(k), lab2, order))
    for si, (a, b) in enumerate(shared_pairs):
        lab = [sym_alnum("%s_s%d_%d" % (prefix, si, x)) for x in range(label_len)]
        holes['kind'].append('!')
        holes['label'].append(SymStr.mk(lab))
        desc_on.setdefault(a, []).append(('!', lab, 1))
        desc_on.setdefault(b, []).append(('!', lab, 1))
    cuts = cuts + shared_pairs
    if distinct_labels and label_len:
        for a, b in itertools.combinations(range(len(holes['label'])), 2):
            symx.ENG.assume(holes['label'][a] != holes['label'][b])
    names = [name_of(bi) if name_of else 'F%d' % bi for bi in range(len(blocks))]
    frag_texts = []
    atom_maps = []
    for bi, block in enumerate(blocks):
        starts = sorted(block)
        start = starts[opts.get('start', 0) % len(starts)]
        pieces, seen = gm.render_fragment(mol, block, start, child_order=opts.get('child', 0),
                                          ring_base=opts.get('ring_base', 1))
        atom_maps.append(seen)
        items = []
        first_atom = True
        pending = []
        branch_of = []      # atoms whose parenthesised branch is open
        deferred = {}       # atom -> descriptor text written after that atom's last closed branch (opts 'after_branch')
        for pi, pc in enumerate(pieces):
            if pc[0] == 'atom':
                a = pc[1]
                ds = desc_on.get(a, [])
                nxt_is_ring = pi + 1 < len(pieces) and pieces[pi + 1][0] == 'ring'
                pj = pi + 1
                while pj < len(pieces) and pieces[pj][0] == 'ring':
                    pj += 1
                has_branch = pj < len(pieces) and pieces[pj][0] == 'open'
                lead = first_atom and opts.get('lead', False) and ds
                osym = dict(ORDER_SYMBOL)
                if opts.get('colon'):
                    osym[1.5] = ':'       # the documented aromatic order symbol written out on cuts through aromatic bonds
                if lead:
                    for (k, lab, order) in ds:
                        items.extend(['['] + [k] + list(lab) + [']'] + list(osym.get(order, '')))
                items.extend(gm.atom_text(mol.atoms[a]))
                if ds and not lead:
                    dtext = []
                    for (k, lab, order) in ds:
                        one = list(osym.get(order, '')) + ['['] + [k] + list(lab) + [']']
                        # opts 'paren': each descriptor in parentheses of its own, C([$])C, as BigSMILES texts often have it
                        dtext.extend((['('] + one + [')']) if opts.get('paren') else one)
                    if opts.get('after_branch') and has_branch:
                        deferred[a] = dtext
                    elif opts.get('after_ring', False) and nxt_is_ring:
                        pending = dtext
                    else:
                        items.extend(dtext)
                first_atom = False
            elif pc[0] == 'ring':
                items.extend(pc[2])
                items.extend(pc[1])
                nxt_is_ring = pi + 1 < len(pieces) and pieces[pi + 1][0] == 'ring'
                if pending and not nxt_is_ring:
                    items.extend(pending)
                    pending = []
            elif pc[0] == 'bond':
                items.extend(pc[1])
            elif pc[0] == 'open':
                items.append('(')
                k = pi - 1
                depth = 0
                while k >= 0:       # the atom this branch hangs on: the last atom at the same nesting depth
                    if pieces[k][0] == 'close':
                        depth += 1
                    elif pieces[k][0] == 'open':
                        depth -= 1
                    elif pieces[k][0] == 'atom' and depth == 0:
                        break
                    k -= 1
                branch_of.append(pieces[k][1])
            elif pc[0] == 'close':
                items.append(')')
                p = branch_of.pop()
                if p in deferred and not (pi + 1 < len(pieces) and pieces[pi + 1][0] == 'open'):
                    items.extend(deferred.pop(p))
        assert not deferred
        frag_texts.append(items)
    # base graph
    pair_count = {}
    for (i, j) in cuts:
        key = tuple(sorted((where[i], where[j])))
        pair_count[key] = pair_count.get(key, 0) + 1
    bpieces, border = base_graph_text(len(blocks), pair_count, root=opts.get('root', 0) % len(blocks),
                                      rev=bool(opts.get('rev', 0)))
    btext = []
    for kind, v in bpieces:
        if kind == 'node':
            btext.extend(['[', '#'] + list(SymStr.lift(names[v])._chs if not isinstance(names[v], str) else names[v]) + [']'])
        else:
            btext.extend(v)
    deforder = list(range(len(blocks)))
    if opts.get('defrev'):
        deforder.reverse()

    def frag_block(order):
        ftext = []
        for n, bi in enumerate(order):
            if n:
                ftext.append(',')
            nm = names[bi]
            ftext.extend(['#'] + list(SymStr.lift(nm)._chs if not isinstance(nm, str) else nm) + ['='] + frag_texts[bi])
        return ftext
    ftext = frag_block(deforder)
    text = cat('{', btext, '}.{', ftext, '}')
    r = Rendered()
    r.text = text
    r.base_text = cat('{', btext, '}')
    r.frag_text = cat('{', ftext, '}')
    r.frag_perms = [cat('{', frag_block(list(p)), '}') for p in itertools.permutations(deforder)][:6]
    r.holes = holes
    r.mol = mol
    r.blocks = blocks
    r.block_order = border       # coarse node k corresponds to block border[k]
    r.atom_maps = atom_maps      # per block: template atom index -> molecule atom
    r.names = names
    r.desc_on = {a: [(SymStr.mk([k]), SymStr.mk(lab), order) for (k, lab, order) in ds] for a, ds in desc_on.items()}
    r.pair_count = pair_count
    r.where = where
    return r


# ---- observation -----------------------------------------------------------
NODE_KEYS = ('element', 'charge', 'aromatic', 'fragid', 'fragname', 'atomname', 'weight', 'mapping', 'chiral',
             'ez_isomer', 'w', 'single_h_frag')


def graph_data(g, keys=NODE_KEYS):
    nodes = {n: {k: d[k] for k in keys if k in d} for n, d in g.nodes(data=True)}
    edges = [[a, b, d.get('order'), list(d['bonding']) if 'bonding' in d else None] for a, b, d in g.edges(data=True)]
    return {'order': list(g.nodes), 'nodes': nodes, 'edges': edges}


def meta_data(meta):
    out = {}
    for k, d in meta.nodes(data=True):
        e = {a: b for a, b in d.items() if a != 'graph'}
        if 'graph' in d:
            gf = d['graph']
            e['_members'] = sorted(gf.nodes)
            e['_member_edges'] = sorted(sorted(x) for x in gf.edges)
        out[k] = e
    return {'order': list(meta.nodes), 'nodes': out,
            'edges': [[a, b, d.get('order')] for a, b, d in meta.edges(data=True)]}


def prelude(M):
    """earlier, unrelated use of the library in the same process: public functions called the way a user may call them
    (plain pysmiles graphs without CGsmiles attributes, another small resolution, a sampler).  Whatever they leave behind
    (module state, caches, mutable default arguments) is part of the history of the calls that follow."""
    import pysmiles
    from . import core
    core.guard(lambda: M.pysmiles_utils.compute_mass(pysmiles.read_smiles('CCO')))
    core.guard(lambda: M.pysmiles_utils.rebuild_h_atoms(pysmiles.read_smiles('C=C', explicit_hydrogen=False)))
    core.guard(lambda: M.resolve.MoleculeResolver.from_string('{[#X][#Y]}.{#X=C[$],#Y=[$]O}').resolve())
    core.guard(lambda: M.resolve.MoleculeResolver.from_string('{[#X][#Y]}.{#X=[#p][$],#Y=[$][#q]}', last_all_atom=False, legacy=False).resolve())
    core.guard(lambda: M.read_fragments.read_fragments('{#Z=[$]C[N;0.5]}'))


def split_layers(text):
    """('{base}', 'rest after the dot') of a layered string; the text may be symbolic (braces are concrete)"""
    items = symx.SymStr.lift(text)._chs
    for i, c in enumerate(items):
        if isinstance(c, str) and c == '}':
            return symx.SymStr.mk(items[:i + 1]), symx.SymStr.mk(items[i + 2:])
    raise ValueError(text)


def permuted_base_graph(M, base_text, entry):
    """the base graph a library user may hand to MoleculeResolver.from_graph: same keys, attributes and edges as the reader's
    graph, but built in another order ('graph_rev': nodes and edges inserted in reverse; 'graph_rot': starting from the
    second node).  Node keys are the identity of the coarse nodes, the insertion order carries no meaning."""
    g0 = M.read_cgsmiles.read_cgsmiles(base_text)
    nodes = list(g0.nodes)
    nodes = list(reversed(nodes)) if entry == 'graph_rev' else nodes[1:] + nodes[:1]
    g = nx.Graph()
    for n in nodes:
        g.add_node(n, **g0.nodes[n])
    edges = list(g0.edges(data=True))
    for a, b, d in (reversed(edges) if entry == 'graph_rev' else edges):
        g.add_edge(a, b, **d)
    return g


def split_all_layers(text):
    """['{base}', '{layer 1}', ...] of a layered string (symbolic text allowed; braces and dots between layers are concrete)"""
    items = symx.SymStr.lift(text)._chs
    out, start = [], 0
    for i, c in enumerate(items):
        if isinstance(c, str) and c == '}':
            out.append(symx.SymStr.mk(items[start:i + 1]))
            start = i + 2
    return out


# the ways a user can get the same resolution out of the library: constructor x driver x what happened before in the process
VARIANTS = [
    {},
    {'entry': 'graph_rev'},
    {'entry': 'dicts'},
    {'how': 'all'},
    {'how': 'iter'},
    {'prelude': True},
    {'entry': 'graph_rot', 'how': 'all', 'prelude': True},
    {'entry': 'dicts', 'how': 'iter'},
]


def run_resolver(M, text, last_all_atom=True, legacy=True, how='resolve', entry='string', prelude_first=False):
    R = M.resolve.MoleculeResolver
    if prelude_first:
        prelude(M)
    if entry == 'string':
        res = R.from_string(text, last_all_atom=last_all_atom, legacy=legacy)
    elif entry == 'dicts':
        layers = split_all_layers(text)
        dicts = R.read_fragment_strings(layers[1:], last_all_atom=last_all_atom)
        res = R.from_fragment_dicts(layers[0], dicts, last_all_atom=last_all_atom, legacy=legacy)
    else:
        base, rest = split_layers(text)
        res = R.from_graph(rest, permuted_base_graph(M, base, entry), last_all_atom=last_all_atom, legacy=legacy)
    if how == 'resolve':
        meta, mol = res.resolve()
        for _ in range(res.resolutions - 1):      # a layered string: resolve() once per level
            meta, mol = res.resolve()
    elif how == 'all':
        meta, mol = res.resolve_all()
    else:
        *_, (meta, mol) = res.resolve_iter()
    return {'meta': meta_data(meta), 'mol': graph_data(mol)}


def run_variant(M, text, variant, **kw):
    return run_resolver(M, text, how=variant.get('how', kw.pop('how', 'resolve')), entry=variant.get('entry', kw.pop('entry', 'string')),
                        prelude_first=bool(variant.get('prelude')), **kw)


# ---- spec-side comparison --------------------------------------------------
def spec_graph(mol, extra_h=None):
    """heavy-atom graph of the spec molecule with the hydrogens its valence requires"""
    g = nx.Graph()
    eh = gm.expected_h(mol)
    for i, a in enumerate(mol.atoms):
        nh = eh[i][0] if eh[i] is not None else None
        g.add_node(i, element=a['element'], charge=a['charge'], nh=nh)
    for (i, j), o in mol.bonds.items():
        g.add_edge(i, j, order=o)
    return g


def observed_heavy_graph(moldata):
    """heavy atoms of an observed fine graph with their hydrogen count and checks on hydrogens"""
    nodes = moldata['nodes']
    g = nx.Graph()
    hs = {}
    for n, d in nodes.items():
        if d.get('element') != 'H':
            g.add_node(n, element=d.get('element'), charge=d.get('charge', 0), nh=0)
    h_ok = True
    for a, b, o, _bd in moldata['edges']:
        ea, eb = nodes[a].get('element'), nodes[b].get('element')
        if ea == 'H' and eb == 'H':
            h_ok = False
        elif ea == 'H' or eb == 'H':
            h, x = (a, b) if ea == 'H' else (b, a)
            hs.setdefault(h, []).append(x)
            g.nodes[x]['nh'] += 1
            if o != 1:
                h_ok = False
        else:
            g.add_edge(a, b, order=o)
    nh_all = [n for n, d in nodes.items() if d.get('element') == 'H']
    for h in nh_all:
        if len(hs.get(h, [])) == 0 and nodes[h].get('single_h_frag'):
            # a single-hydrogen *fragment* for which the string offers no compatible descriptor
            # stays unbonded by the input's own doing; outside the hydrogen clause
            continue
        if len(hs.get(h, [])) != 1:
            h_ok = False
    return g, h_ok, hs


def node_eq(a, b):
    from .gen_graph import val_eq
    return band(a['element'] == b['element'], val_eq(a['charge'], b['charge']),
                True if (a.get('nh') is None or b.get('nh') is None) else val_eq(a['nh'], b['nh']))


def edge_eq(a, b):
    from .gen_graph import val_eq
    return val_eq(a.get('order'), b.get('order'))
