"""
symx -- bounded symbolic execution of (a subset of) Python source with z3.

The repository's modules are loaded through an AST rewrite (see ``loader``)
that routes ``in``, subscripts and calls through the runtime ``RT`` below;
everything else is plain operator overloading on the proxy values defined here.

Value model
-----------
* ``SymStr``  : string of concrete length; every item is a 1-char ``str`` or a
                z3 ``Int`` code point.  An all-concrete string is normalised
                back to ``str``.
* ``SymInt``  : z3 ``Int`` (mathematical integers, as Python ``int``).
* ``SymReal`` : z3 ``Real`` (Python ``float`` read as exact real arithmetic).
* ``SymBool`` : z3 ``Bool``;  ``bool(SymBool)`` forks the path.

Exploration is depth first by re-execution from the start of the harness; the
decision stack is kept across runs, one incremental solver per engine.
"""
import ast
import functools as _functools
import fractions
import re
import string as _string
import sys
import time
import types

import z3

try:
    import re._parser as sre_parse
    import re._constants as sre_c
except ImportError:  # pragma: no cover
    import sre_parse
    import sre_constants as sre_c


class Unsupported(BaseException):
    """A construct the engine does not model: the run is inconclusive."""


class PathAbort(BaseException):
    """Infeasible or deliberately pruned path."""


SOLVER_TIMEOUT_MS = 30000


# --------------------------------------------------------------------------
# engine
# --------------------------------------------------------------------------
class Engine:
    def __init__(self, base=()):
        self.solver = z3.Solver()
        self.solver.set('timeout', SOLVER_TIMEOUT_MS)
        self.base = list(base)
        self.stack = []      # entries: [choice(bool), exhausted(bool), aux]
        self.pos = 0
        self.decls = []      # (name, z3 term, kind)
        self.trail = []
        self.dom = {}        # z3 var id -> frozenset of allowed ints | (lo, hi)
        self.stats = dict(paths=0, checks=0, solver_s=0.0, queries=0,
                          branches=0, forks=0)
        self._model = None
        self.memo = {}       # per-run memo (summaries)
        self.names = set()

    # -- run management
    def start_run(self):
        self.solver.reset()
        self.solver.set('timeout', SOLVER_TIMEOUT_MS)
        for a in self.base:
            self.solver.add(a)
        self.trail = []
        self.pos = 0
        self.decls = []
        self.dom = {}
        self._model = None
        self.memo = {}
        self.names = set()
        for entries in _MEMOS:
            entries.clear()

    def finish_run(self):
        """advance DFS; return False when the decision tree is exhausted"""
        self.stats['paths'] += 1
        del self.stack[self.pos:]
        while self.stack and self.stack[-1][1]:
            self.stack.pop()
        if not self.stack:
            return False
        top = self.stack[-1]
        top[0] = not top[0]
        top[1] = True
        return True

    def _check(self, *extra):
        t = time.time()
        r = self.solver.check(*extra)
        self.stats['solver_s'] += time.time() - t
        self.stats['checks'] += 1
        if r == z3.unknown:
            raise Unsupported("solver returned unknown: %s" % self.solver.reason_unknown())
        if r == z3.sat:
            return True
        return False

    def add(self, c):
        self.solver.add(c)
        self._model = None

    # -- fresh variables
    def _name(self, name):
        if name in self.names:
            raise RuntimeError("duplicate symbolic variable " + name)
        self.names.add(name)
        return name

    def fresh_int(self, name, lo, hi, allowed=None):
        v = z3.Int(self._name(name))
        self.solver.add(v >= lo, v <= hi)
        if allowed is not None:
            allowed = frozenset(allowed)
            self.solver.add(z3.Or(*[v == a for a in sorted(allowed)]))
            self.dom[v.get_id()] = allowed
        else:
            self.dom[v.get_id()] = (lo, hi)
        self.decls.append((name, v, 'int'))
        self._model = None
        return v

    def fresh_real(self, name):
        v = z3.Real(self._name(name))
        self.decls.append((name, v, 'real'))
        return v

    def fresh_bool(self, name):
        v = z3.Bool(self._name(name))
        self.decls.append((name, v, 'bool'))
        return v

    # -- path condition
    def assume(self, cond):
        cond = unwrap_bool(cond)
        if cond is True:
            return
        if cond is False:
            raise PathAbort()
        self.add(cond)
        self.trail.append(cond)
        if not self._check():
            raise PathAbort()

    def _model_says(self, cond):
        if self._model is None:
            return None
        try:
            v = self._model.eval(cond, model_completion=True)
        except z3.Z3Exception:
            return None
        if z3.is_true(v):
            return True
        if z3.is_false(v):
            return False
        return None

    def branch(self, cond, aux=None):
        """decide a symbolic condition (z3 BoolRef); returns python bool"""
        cond = z3.simplify(cond)
        if z3.is_true(cond):
            return True
        if z3.is_false(cond):
            return False
        self.stats['branches'] += 1
        if self.pos < len(self.stack):
            choice = self.stack[self.pos][0]
            self.pos += 1
            c = cond if choice else z3.Not(cond)
            self.solver.add(c)
            self.trail.append(c)
            self._model = None
            return choice
        hint = self._model_says(cond)
        if hint is True:
            can_t = True
            can_f = self._check(z3.Not(cond))
            if can_f:
                self._model = None   # solver's last model is for the other side
        elif hint is False:
            can_f = True
            can_t = self._check(cond)
            if can_t:
                self._model = None
        else:
            can_t = self._check(cond)
            can_f = self._check(z3.Not(cond))
            self._model = None
        if can_t and can_f:
            self.stack.append([True, False, aux])
            self.stats['forks'] += 1
            choice = True
        elif can_t:
            self.stack.append([True, True, aux])
            choice = True
        elif can_f:
            self.stack.append([False, True, aux])
            choice = False
        else:
            raise PathAbort()
        self.pos += 1
        c = cond if choice else z3.Not(cond)
        self.solver.add(c)
        self.trail.append(c)
        if hint is not None and choice != hint:
            self._model = None
        return choice

    def get_model(self):
        if self._model is None:
            if not self._check():
                raise PathAbort()
            self._model = self.solver.model()
        return self._model

    def concretize_int(self, expr):
        expr = z3.simplify(expr)
        if z3.is_int_value(expr):
            return expr.as_long()
        while True:
            if self.pos < len(self.stack):
                v = self.stack[self.pos][2]
            else:
                v = self.get_model().eval(expr, model_completion=True).as_long()
            if self.branch(expr == v, aux=v):
                return v

    def must(self, cond):
        """is cond implied by the path condition? (no fork)"""
        cond = unwrap_bool(cond)
        if isinstance(cond, bool):
            return cond
        return not self._check(z3.Not(cond))

    # -- assertions
    def check(self, cond):
        """Return a z3 model violating ``cond`` on this path, or None."""
        self.stats['queries'] += 1
        c = unwrap_bool(cond)
        if c is True:
            return None
        neg = z3.BoolVal(True) if c is False else z3.Not(c)
        r = self._check(neg)
        if CROSS['every'] and c is not False:
            CROSS['n'] += 1
            if CROSS['n'] % CROSS['every'] == 0 and len(CROSS['files']) < CROSS['cap']:
                self._dump_query(neg, 'sat' if r else 'unsat')
        if r:
            return self.solver.model()
        return None

    def _dump_query(self, neg, verdict):
        """write the assertion query (path condition and negated property) as SMT-LIB2 for re-decision by other solvers"""
        import os
        import tempfile
        if CROSS['dir'] is None:
            CROSS['dir'] = tempfile.mkdtemp(prefix='vfcross_')
        self.solver.push()
        self.solver.add(neg)
        text = self.solver.to_smt2()
        self.solver.pop()
        self._model = None
        path = os.path.join(CROSS['dir'], 'q%d_%d.smt2' % (os.getpid(), len(CROSS['files'])))
        with open(path, 'w') as fh:
            fh.write('(set-logic ALL)\n' + text)
        CROSS['files'].append((path, verdict))

    def path_condition(self):
        return list(self.trail)


CROSS = {'every': 0, 'cap': 40, 'files': [], 'dir': None, 'n': 0}     # cross-solver re-decision of sampled assertion queries
ENG = Engine()


def set_engine(e):
    global ENG
    ENG = e
    return e


# --------------------------------------------------------------------------
# symbolic values
# --------------------------------------------------------------------------
def is_sym(x):
    return isinstance(x, (SymStr, SymInt, SymBool, SymReal))


def unwrap_bool(b):
    if isinstance(b, SymBool):
        return b.e
    if isinstance(b, bool):
        return b
    if isinstance(b, z3.BoolRef):
        return b
    if isinstance(b, SymInt):
        return b.e != 0
    return bool(b)


class SymBool:
    __slots__ = ('e',)

    def __init__(self, e):
        self.e = e

    def __bool__(self):
        return ENG.branch(self.e)

    def __eq__(self, o):
        if isinstance(o, SymBool):
            return mkbool(self.e == o.e)
        if isinstance(o, bool):
            return mkbool(self.e == o)
        if isinstance(o, (int, float)):
            return mkbool(z3.If(self.e, 1, 0) == o) if o in (0, 1) else False
        return False

    def __ne__(self, o):
        return bnot(self.__eq__(o))

    def __invert__(self):
        return mkbool(z3.Not(self.e))

    def __and__(self, o):
        return band(self, o)
    __rand__ = __and__

    def __or__(self, o):
        return bor(self, o)
    __ror__ = __or__

    def __deepcopy__(self, memo):
        return self

    def __repr__(self):
        return "SymBool(%s)" % self.e

    __hash__ = None


def mkbool(e):
    if isinstance(e, bool):
        return e
    if isinstance(e, SymBool):
        return e
    e = z3.simplify(e)
    if z3.is_true(e):
        return True
    if z3.is_false(e):
        return False
    return SymBool(e)


def band(*xs):
    es = []
    for x in xs:
        x = unwrap_bool(x)
        if x is False:
            return False
        if x is True:
            continue
        es.append(x)
    if not es:
        return True
    if len(es) == 1:
        return mkbool(es[0])
    return mkbool(z3.And(*es))


def bor(*xs):
    es = []
    for x in xs:
        x = unwrap_bool(x)
        if x is True:
            return True
        if x is False:
            continue
        es.append(x)
    if not es:
        return False
    if len(es) == 1:
        return mkbool(es[0])
    return mkbool(z3.Or(*es))


def bnot(x):
    x = unwrap_bool(x)
    if isinstance(x, bool):
        return not x
    return mkbool(z3.Not(x))


def bimplies(a, b):
    return bor(bnot(a), b)


def biff(a, b):
    a = unwrap_bool(a)
    b = unwrap_bool(b)
    if isinstance(a, bool) and isinstance(b, bool):
        return a == b
    if isinstance(a, bool):
        return mkbool(b) if a else bnot(b)
    if isinstance(b, bool):
        return mkbool(a) if b else bnot(a)
    return mkbool(a == b)


def ite(c, a, b):
    """value-level if-then-else over ints/reals/chars"""
    c = unwrap_bool(c)
    if c is True:
        return a
    if c is False:
        return b
    if isinstance(a, (SymReal, float, fractions.Fraction)) or isinstance(b, (SymReal, float, fractions.Fraction)):
        return SymReal.mk(z3.If(c, _real_term(a), _real_term(b)))
    return SymInt.mk(z3.If(c, _int_term(a), _int_term(b)))


def _int_term(x):
    if isinstance(x, SymInt):
        return x.e
    if isinstance(x, bool):
        return z3.IntVal(int(x))
    if isinstance(x, int):
        return z3.IntVal(x)
    if isinstance(x, SymBool):
        return z3.If(x.e, 1, 0)
    raise Unsupported("int term of %r" % type(x))


def _real_term(x):
    if isinstance(x, SymReal):
        return x.e
    if isinstance(x, SymInt):
        return z3.ToReal(x.e)
    if isinstance(x, bool):
        return z3.RealVal(int(x))
    if isinstance(x, int):
        return z3.RealVal(x)
    if isinstance(x, float):
        fr = fractions.Fraction(x)
        return z3.RealVal(fr.numerator) / z3.RealVal(fr.denominator)
    if isinstance(x, fractions.Fraction):
        return z3.RealVal(x.numerator) / z3.RealVal(x.denominator)
    if isinstance(x, SymBool):
        return z3.If(x.e, z3.RealVal(1), z3.RealVal(0))
    try:
        import numpy as _np
        if isinstance(x, _np.generic):
            return _real_term(x.item())
    except ImportError:  # pragma: no cover
        pass
    return None


class SymInt:
    __slots__ = ('e',)

    def __init__(self, e):
        self.e = e

    @staticmethod
    def mk(e):
        if isinstance(e, int):
            return e
        e = z3.simplify(e)
        if z3.is_int_value(e):
            return e.as_long()
        return SymInt(e)

    def _o(self, o):
        if isinstance(o, SymInt):
            return o.e
        if isinstance(o, bool):
            return int(o)
        if isinstance(o, int):
            return o
        if isinstance(o, SymBool):
            return z3.If(o.e, 1, 0)
        return None

    def _arith(self, o, fi, fr):
        oe = self._o(o)
        if oe is not None:
            return SymInt.mk(fi(self.e, oe))
        if isinstance(o, (float, SymReal, fractions.Fraction)):
            return SymReal.mk(fr(z3.ToReal(self.e), _real_term(o)))
        return NotImplemented

    def __add__(self, o): return self._arith(o, lambda a, b: a + b, lambda a, b: a + b)
    __radd__ = __add__
    def __sub__(self, o): return self._arith(o, lambda a, b: a - b, lambda a, b: a - b)
    def __rsub__(self, o): return self._arith(o, lambda a, b: b - a, lambda a, b: b - a)
    def __mul__(self, o): return self._arith(o, lambda a, b: a * b, lambda a, b: a * b)
    __rmul__ = __mul__

    def __truediv__(self, o):
        return SymReal.mk(z3.ToReal(self.e)) / o

    def __rtruediv__(self, o):
        return o / SymReal.mk(z3.ToReal(self.e))

    def __floordiv__(self, o):
        if isinstance(o, int) and not isinstance(o, bool) and o > 0:
            return SymInt.mk(self.e / o)   # z3 int division: floor for positive divisor
        raise Unsupported("floordiv")

    def __mod__(self, o):
        if isinstance(o, int) and not isinstance(o, bool) and o > 0:
            return SymInt.mk(self.e % o)
        raise Unsupported("mod")

    def __neg__(self):
        return SymInt.mk(-self.e)

    def __pos__(self):
        return self

    def __abs__(self):
        return SymInt.mk(z3.If(self.e >= 0, self.e, -self.e))

    def _cmp(self, o, f):
        oe = self._o(o)
        if oe is None:
            rt = _real_term(o) if isinstance(o, (float, SymReal, fractions.Fraction)) else None
            if rt is not None:
                return mkbool(f(z3.ToReal(self.e), rt))
            return NotImplemented
        return mkbool(f(self.e, oe))

    def __eq__(self, o):
        r = self._cmp(o, lambda a, b: a == b)
        return False if r is NotImplemented else r

    def __ne__(self, o):
        r = self._cmp(o, lambda a, b: a != b)
        return True if r is NotImplemented else r

    def __lt__(self, o): return self._cmp(o, lambda a, b: a < b)
    def __le__(self, o): return self._cmp(o, lambda a, b: a <= b)
    def __gt__(self, o): return self._cmp(o, lambda a, b: a > b)
    def __ge__(self, o): return self._cmp(o, lambda a, b: a >= b)

    def __index__(self):
        return ENG.concretize_int(self.e)
    __int__ = __index__

    def __float__(self):
        return float(ENG.concretize_int(self.e))

    def __hash__(self):
        if RT._hash_ok:
            return 0x5EEF     # dict access from rewritten code: RT scans keys with symbolic equality
        return hash(ENG.concretize_int(self.e))

    def __bool__(self):
        return ENG.branch(self.e != 0)

    def __deepcopy__(self, memo):
        return self

    def __copy__(self):
        return self

    def __repr__(self):
        return "SymInt(%s)" % self.e

    def __str__(self):
        raise Unsupported("str() of SymInt outside rewritten code")

    def __format__(self, spec):
        raise Unsupported("format of SymInt")


class SymReal:
    __slots__ = ('e',)

    def __init__(self, e):
        self.e = e

    @staticmethod
    def mk(e):
        e = z3.simplify(e)
        if z3.is_rational_value(e):
            return e.numerator_as_long() / e.denominator_as_long()
        return SymReal(e)

    def _o(self, o):
        return _real_term(o)

    def _bin(self, o, f):
        oe = self._o(o)
        if oe is None:
            return NotImplemented
        return SymReal.mk(f(self.e, oe))

    def __add__(self, o): return self._bin(o, lambda a, b: a + b)
    __radd__ = __add__
    def __sub__(self, o): return self._bin(o, lambda a, b: a - b)
    def __rsub__(self, o): return self._bin(o, lambda a, b: b - a)
    def __mul__(self, o): return self._bin(o, lambda a, b: a * b)
    __rmul__ = __mul__
    def __truediv__(self, o):
        oe = self._o(o)
        if oe is None:
            return NotImplemented
        return _sym_div(self.e, oe)

    def __rtruediv__(self, o):
        oe = self._o(o)
        if oe is None:
            return NotImplemented
        return _sym_div(oe, self.e)

    def __neg__(self): return SymReal.mk(-self.e)
    def __pos__(self): return self

    def __abs__(self):
        return SymReal.mk(z3.If(self.e >= 0, self.e, -self.e))

    def __pow__(self, n):
        if isinstance(n, int) and n >= 0:
            r = z3.RealVal(1)
            for _ in range(n):
                r = r * self.e
            return SymReal.mk(r)
        raise Unsupported("pow")

    def _cmp(self, o, f):
        oe = self._o(o)
        if oe is None:
            return NotImplemented
        return mkbool(f(self.e, oe))

    def __eq__(self, o):
        r = self._cmp(o, lambda a, b: a == b)
        return False if r is NotImplemented else r

    def __ne__(self, o):
        r = self._cmp(o, lambda a, b: a != b)
        return True if r is NotImplemented else r

    def __lt__(self, o): return self._cmp(o, lambda a, b: a < b)
    def __le__(self, o): return self._cmp(o, lambda a, b: a <= b)
    def __gt__(self, o): return self._cmp(o, lambda a, b: a > b)
    def __ge__(self, o): return self._cmp(o, lambda a, b: a >= b)

    def __bool__(self):
        return ENG.branch(self.e != 0)

    def __hash__(self):
        raise Unsupported("hash of SymReal")

    def __float__(self):
        raise Unsupported("float() of SymReal by non-rewritten code")

    def __deepcopy__(self, memo):
        return self

    def __copy__(self):
        return self

    def __repr__(self):
        return "SymReal(%s)" % self.e


def _sym_div(num, den):
    """real division; a non-constant divisor is eliminated: q is a fresh real with q * den == num
    (Python raises ZeroDivisionError for a zero divisor: that path forks off when it is feasible)"""
    den = z3.simplify(den)
    if z3.is_rational_value(den):
        if den.numerator_as_long() == 0:
            raise ZeroDivisionError("float division by zero")
        return SymReal.mk(num / den)
    num = z3.simplify(num) if isinstance(num, z3.ExprRef) else num
    if ENG.branch(den == 0):
        raise ZeroDivisionError("float division by zero")
    # division is a function: the same numerator and denominator give the same quotient variable
    for (q0, n0, d0) in ENG.memo.get('quotients', []):
        if d0.eq(den) and isinstance(num, z3.ExprRef) and n0.eq(num):
            return SymReal(q0)
    ENG.stats['quotients'] = ENG.stats.get('quotients', 0) + 1
    q = ENG.fresh_real('quot%d_%d' % (ENG.stats['paths'], ENG.stats['quotients']))
    ENG.add(q * den == num)
    ENG.memo.setdefault('quotients', []).append((q, num, den))
    return SymReal(q)


# ---- characters ----------------------------------------------------------
def _dom(c):
    return ENG.dom.get(c.get_id()) if isinstance(c, z3.ExprRef) else None


def _dom_has(c, code):
    """None = unknown; True/False = whether code lies in the declared domain"""
    d = _dom(c)
    if d is None:
        return None
    if isinstance(d, frozenset):
        return code in d
    return d[0] <= code <= d[1]


def ch_eq(a, b):
    """equality of two char items (1-char str or z3 Int) -> bool | z3 Bool"""
    if isinstance(a, str):
        if isinstance(b, str):
            return a == b
        a, b = b, a
    if isinstance(b, str):
        code = ord(b)
        if _dom_has(a, code) is False:
            return False
        d = _dom(a)
        if isinstance(d, frozenset) and len(d) == 1:
            return True
        return a == code
    if a is b or a.eq(b):
        return True
    da, db = _dom(a), _dom(b)
    if isinstance(da, frozenset) and isinstance(db, frozenset) and not (da & db):
        return False
    return a == b


def ch_in_range(c, lo, hi):
    if isinstance(c, str):
        return lo <= ord(c) <= hi
    d = _dom(c)
    if d is not None:
        if isinstance(d, frozenset):
            ins = [x for x in d if lo <= x <= hi]
            if not ins:
                return False
            if len(ins) == len(d):
                return True
        else:
            if d[1] < lo or d[0] > hi:
                return False
            if lo <= d[0] and d[1] <= hi:
                return True
    return z3.And(c >= lo, c <= hi)


def ch_code(a):
    return ord(a) if isinstance(a, str) else a


def ch_isdigit(c):
    if isinstance(c, str):
        return c.isdigit()
    return ch_in_range(c, 48, 57)


def ch_isalnum(c):
    if isinstance(c, str):
        return c.isalnum()
    return bor(ch_in_range(c, 48, 57), ch_in_range(c, 65, 90), ch_in_range(c, 97, 122))


class SymStr:
    """string of concrete length; items are 1-char str or z3 Int code points"""
    __slots__ = ("_chs",)

    def __init__(self, items):
        self._chs = tuple(items)

    @staticmethod
    def mk(items):
        items = tuple(items)
        if all(isinstance(i, str) for i in items):
            return ''.join(items)
        return SymStr(items)

    @staticmethod
    def lift(x):
        if isinstance(x, SymStr):
            return x
        if isinstance(x, str):
            return SymStr(tuple(x))
        raise Unsupported("lift %r" % type(x))

    def __len__(self):
        return len(self._chs)

    def __iter__(self):
        for i in self._chs:
            yield SymStr.mk((i,))

    def __getitem__(self, k):
        if isinstance(k, slice):
            return SymStr.mk(self._chs[k])
        if isinstance(k, SymInt):
            k = int(k)
        return SymStr.mk((self._chs[k],))

    def __add__(self, o):
        if isinstance(o, (str, SymStr)):
            return SymStr.mk(self._chs + SymStr.lift(o)._chs)
        return NotImplemented

    def __radd__(self, o):
        if isinstance(o, str):
            return SymStr.mk(tuple(o) + self._chs)
        return NotImplemented

    def __mul__(self, n):
        return SymStr.mk(self._chs * int(n))
    __rmul__ = __mul__

    def _eq(self, o):
        if not isinstance(o, (str, SymStr)):
            return False
        o = SymStr.lift(o)
        if len(o._chs) != len(self._chs):
            return False
        return band(*[ch_eq(a, b) for a, b in zip(self._chs, o._chs)])

    def __eq__(self, o):
        return self._eq(o)

    def __ne__(self, o):
        return bnot(self._eq(o))

    def _lt(self, o, strict_result):
        # lexicographic comparison by code point
        o = SymStr.lift(o)
        a, b = self._chs, o._chs
        res = (len(a) < len(b)) if strict_result else (len(a) <= len(b))
        for x, y in reversed(list(zip(a, b))):
            lt = mkbool(ch_code(x) < ch_code(y)) if not (isinstance(x, str) and isinstance(y, str)) else (x < y)
            eq = ch_eq(x, y)
            res = bor(lt, band(eq, res))
        return res

    def __lt__(self, o): return self._lt(o, True)
    def __le__(self, o): return self._lt(o, False)
    def __gt__(self, o): return bnot(self._lt(o, False))
    def __ge__(self, o): return bnot(self._lt(o, True))

    def __hash__(self):
        if RT._hash_ok:
            return 0x5EED
        raise Unsupported("hash of a symbolic string outside the rewritten code")

    def __bool__(self):
        return len(self._chs) > 0

    def __deepcopy__(self, memo):
        return self

    def __copy__(self):
        return self

    def __repr__(self):
        return "SymStr(" + ''.join(i if isinstance(i, str) else '?' for i in self._chs) + ")"

    __str__ = __repr__

    def __format__(self, spec):
        raise Unsupported("format() of a symbolic string outside rewritten code")

    def _cls(self, pred):
        return band(len(self._chs) > 0, *[pred(i) for i in self._chs])

    def isdigit(self):
        return self._cls(ch_isdigit)

    def isalnum(self):
        return self._cls(ch_isalnum)

    def contains(self, sub):
        sub = SymStr.lift(sub)
        n, m = len(self._chs), len(sub._chs)
        if m == 0:
            return True
        alts = []
        for off in range(0, n - m + 1):
            alts.append(band(*[ch_eq(self._chs[off + j], sub._chs[j]) for j in range(m)]))
        return bor(*alts)

    def startswith(self, p):
        if isinstance(p, tuple):
            return bor(*[self.startswith(x) for x in p])
        p = SymStr.lift(p)
        if len(p) > len(self):
            return False
        return SymStr.lift(self[:len(p)])._eq(p)

    def endswith(self, p):
        if isinstance(p, tuple):
            return bor(*[self.endswith(x) for x in p])
        p = SymStr.lift(p)
        if len(p) > len(self):
            return False
        if len(p) == 0:
            return True
        return SymStr.lift(self[-len(p):])._eq(p)

    def count(self, sub):
        sub = SymStr.lift(sub)
        if len(sub) != 1:
            raise Unsupported("count of multi-char substring")
        n = 0
        for i in self._chs:
            c = ch_eq(i, sub._chs[0])
            if isinstance(c, bool):
                n = n + int(c)
            else:
                n = n + SymInt.mk(z3.If(c, 1, 0))
        return n

    def split(self, sep=None, maxsplit=-1):
        if sep is None and maxsplit == -1:
            # split on runs of whitespace; no empty pieces (forks per symbolic character)
            out, cur = [], []
            for i in self._chs:
                c = _ch_isspace(i)
                if not isinstance(c, bool):
                    c = ENG.branch(unwrap_bool(c))
                if c:
                    if cur:
                        out.append(SymStr.mk(cur))
                    cur = []
                else:
                    cur.append(i)
            if cur:
                out.append(SymStr.mk(cur))
            return out
        if not (isinstance(sep, str) and len(sep) == 1) or maxsplit != -1:
            raise Unsupported("split form")
        out, cur = [], []
        for i in self._chs:
            c = ch_eq(i, sep)
            if not isinstance(c, bool):
                c = ENG.branch(c)
            if c:
                out.append(SymStr.mk(cur))
                cur = []
            else:
                cur.append(i)
        out.append(SymStr.mk(cur))
        return out

    def find(self, sub, start=0):
        sub = SymStr.lift(sub)
        m = len(sub)
        for off in range(start, len(self._chs) - m + 1):
            if self[off:off + m] == sub:
                return off
        return -1

    def index(self, sub, start=0):
        r = self.find(sub, start)
        if r < 0:
            raise ValueError("substring not found")
        return r

    def join(self, parts):
        out = []
        first = True
        for p in parts:
            if not first:
                out.extend(self._chs)
            first = False
            out.extend(SymStr.lift(p)._chs)
        return SymStr.mk(out)

    def format(self, *args, **kw):
        tmpl = ''.join(self._chs)   # template must be concrete
        return sym_format(tmpl, args, kw)

    def to_int(self):
        items = list(self._chs)
        sign = 1
        if items and not isinstance(items[0], str):
            pass
        elif items and items[0] in '+-':
            sign = -1 if items[0] == '-' else 1
            items = items[1:]
        if not SymStr(items).isdigit():
            raise ValueError("invalid literal for int() with base 10 [symbolic]")
        e = 0
        for i in items:
            e = e * 10 + (ch_code(i) - 48)
        e = e * sign
        return SymInt.mk(e) if not isinstance(e, int) else e

    def capitalize(self):
        raise Unsupported("capitalize on symbolic string")

    # ---- case mapping (ASCII; symbolic characters are declared within ASCII)
    def _map_case(self, lo, hi, delta):
        out = []
        for i in self._chs:
            if isinstance(i, str):
                out.append(i.lower() if delta > 0 else i.upper())
                continue
            r = ch_in_range(i, lo, hi)
            if r is False:
                out.append(i)
            elif r is True:
                out.append(i + delta)
            else:
                out.append(z3.If(unwrap_bool(r), i + delta, i))
        return SymStr.mk(out)

    def lower(self):
        return self._map_case(65, 90, 32)

    def upper(self):
        return self._map_case(97, 122, -32)

    def casefold(self):
        return self.lower()

    def islower(self):
        return band(bor(*[ch_in_range(i, 97, 122) for i in self._chs]), *[bnot(ch_in_range(i, 65, 90)) for i in self._chs])

    def isupper(self):
        return band(bor(*[ch_in_range(i, 65, 90) for i in self._chs]), *[bnot(ch_in_range(i, 97, 122)) for i in self._chs])

    def isalpha(self):
        return self._cls(lambda c: c.isalpha() if isinstance(c, str) else bor(ch_in_range(c, 65, 90), ch_in_range(c, 97, 122)))

    def isspace(self):
        return self._cls(_ch_isspace)

    # ---- stripping (forks per character)
    @staticmethod
    def _strip_pred(chars):
        if chars is None:
            return _ch_isspace
        chars = SymStr.lift(chars)
        return lambda c: bor(*[ch_eq(c, x) for x in chars._chs])

    def lstrip(self, chars=None):
        pred = self._strip_pred(chars)
        k = 0
        while k < len(self._chs):
            c = pred(self._chs[k])
            if not isinstance(c, bool):
                c = ENG.branch(unwrap_bool(c))
            if not c:
                break
            k += 1
        return SymStr.mk(self._chs[k:])

    def rstrip(self, chars=None):
        pred = self._strip_pred(chars)
        k = len(self._chs)
        while k > 0:
            c = pred(self._chs[k - 1])
            if not isinstance(c, bool):
                c = ENG.branch(unwrap_bool(c))
            if not c:
                break
            k -= 1
        return SymStr.mk(self._chs[:k])

    def strip(self, chars=None):
        return SymStr.lift(self.lstrip(chars)).rstrip(chars) if len(self._chs) else ''

    def partition(self, sep):
        k = self.find(sep)
        if k < 0:
            return (self, '', '')
        return (self[:k], sep, self[k + len(sep):])

    def rpartition(self, sep):
        sep_l = SymStr.lift(sep)
        m = len(sep_l)
        for off in range(len(self._chs) - m, -1, -1):
            if self[off:off + m] == sep:
                return (self[:off], sep, self[off + m:])
        return ('', '', self)

    def removeprefix(self, p):
        return self[len(p):] if self.startswith(p) else self

    def removesuffix(self, p):
        return self[:len(self) - len(p)] if (len(p) and self.endswith(p)) else self

    def replace(self, old, new, count=-1):
        old_l = SymStr.lift(old)
        if len(old_l) != 1 or count != -1:
            raise Unsupported("replace form")
        out = []
        for i in self._chs:
            c = ch_eq(i, old_l._chs[0])
            if not isinstance(c, bool):
                c = ENG.branch(unwrap_bool(c))
            if c:
                out.extend(SymStr.lift(new)._chs)
            else:
                out.append(i)
        return SymStr.mk(out)

    def __getattr__(self, name):
        # a string method the engine does not model: the path is inconclusive, never a silent AttributeError
        if name.startswith('__') or not hasattr(str, name):
            raise AttributeError(name)
        raise Unsupported("str.%s on a symbolic string" % name)


def _ch_isspace(c):
    if isinstance(c, str):
        return c.isspace()
    return bor(ch_in_range(c, 9, 13), ch_in_range(c, 28, 32))


def sym_format(tmpl, args, kw):
    out = []
    auto = 0
    for lit, field, spec, conv in _string.Formatter().parse(tmpl):
        out.extend(lit)
        if field is None:
            continue
        if spec or conv:
            raise Unsupported("format spec")
        if field == '':
            v = args[auto]
            auto += 1
        elif field.isdigit():
            v = args[int(field)]
        else:
            v = kw[field]
        out.extend(SymStr.lift(sym_str(v))._chs)
    return SymStr.mk(out)


def sym_str(v):
    """str(v) for possibly symbolic v"""
    if isinstance(v, (str, SymStr)):
        return v
    if isinstance(v, SymInt):
        if ENG.must(band(v >= 0, v <= 9)):
            return SymStr([z3.simplify(v.e + 48)])
        return str(int(v))
    if isinstance(v, SymBool):
        return str(bool(v))
    if isinstance(v, SymReal):
        raise Unsupported("str of symbolic real")
    return str(v)


def sym_float(s):
    """float() of a symbolic string.

    Accepts [+-]?digits[.digits] with at least one digit as an exact rational
    term.  Any other character pattern follows the ValueError path, which is
    exact provided the alphabet of the symbolic characters excludes what
    ``float`` additionally accepts (exponents, 'inf', 'nan', '_', whitespace);
    the harness states its alphabet.  Concrete strings never come here.
    """
    s = SymStr.lift(s)
    items = list(s._chs)
    if not items:
        raise ValueError("could not convert string to float: ''")
    i = 0
    sign = 1
    is_minus, is_plus = ch_eq(items[0], '-'), ch_eq(items[0], '+')
    has_sign = bor(is_minus, is_plus)
    if isinstance(has_sign, SymBool) and ENG.must(has_sign):
        has_sign = True
    if has_sign:       # forks only when the first character may or may not be a sign
        sign = 1 if is_minus is False else (-1 if is_minus is True else z3.If(unwrap_bool(is_minus), -1, 1))
        i = 1
    intpart = []
    while i < len(items) and SymStr.lift(s[i]).isdigit():
        intpart.append(items[i])
        i += 1
    frac = []
    if i < len(items) and s[i] == '.':
        i += 1
        while i < len(items) and SymStr.lift(s[i]).isdigit():
            frac.append(items[i])
            i += 1
    if not intpart and not frac:
        raise ValueError("could not convert string to float [symbolic]")
    exp10 = 0
    if i < len(items) and bor(s[i] == 'e', s[i] == 'E'):
        # exponent: [+-]?digits ; its value is concretised by forking
        j = i + 1
        esign = 1
        if j < len(items) and bor(s[j] == '+', s[j] == '-'):
            esign = -1 if s[j] == '-' else 1
            j += 1
        edigits = []
        while j < len(items) and SymStr.lift(s[j]).isdigit():
            edigits.append(items[j])
            j += 1
        if not edigits or j != len(items):
            raise ValueError("could not convert string to float [symbolic exponent]")
        ev = 0
        for d in edigits:
            ev = ev * 10 + ((ord(d) - 48) if isinstance(d, str) else SymInt.mk(d - 48))
        exp10 = esign * int(ev)
        i = j
    if i != len(items):
        raise ValueError("could not convert string to float [symbolic]")
    e = z3.RealVal(0)
    for d in intpart:
        e = e * 10 + z3.ToReal(z3.IntVal(ord(d) - 48) if isinstance(d, str) else d - 48)
    scale = z3.RealVal(1)
    for d in frac:
        scale = scale / 10
        e = e + scale * z3.ToReal(z3.IntVal(ord(d) - 48) if isinstance(d, str) else d - 48)
    if exp10 > 0:
        e = e * (10 ** exp10)
    elif exp10 < 0:
        e = e / (10 ** (-exp10))
    return SymReal.mk(e * sign)


# --------------------------------------------------------------------------
# symbolic regex (backtracking over the sre parse tree; forks through SymBool)
# --------------------------------------------------------------------------
def _cat(av, c):
    if av == sre_c.CATEGORY_DIGIT:
        return ch_isdigit(c)
    if av == sre_c.CATEGORY_NOT_DIGIT:
        return bnot(ch_isdigit(c))
    if av == sre_c.CATEGORY_WORD:
        if isinstance(c, str):
            return c.isalnum() or c == '_'
        return bor(ch_isalnum(c), ch_eq(c, '_'))
    if av == sre_c.CATEGORY_SPACE:
        if isinstance(c, str):
            return c.isspace()
        return bor(*[ch_eq(c, x) for x in ' \t\n\r\f\v'])
    raise Unsupported("regex category %s" % av)


def _in_set(items, c):
    neg = False
    alts = []
    for op, av in items:
        if op == sre_c.NEGATE:
            neg = True
        elif op == sre_c.LITERAL:
            alts.append(ch_eq(c, chr(av)))
        elif op == sre_c.RANGE:
            lo, hi = av
            alts.append(ch_in_range(c, lo, hi))
        elif op == sre_c.CATEGORY:
            alts.append(_cat(av, c))
        else:
            raise Unsupported("regex set op %s" % op)
    r = bor(*alts)
    return bnot(r) if neg else r


def _match_here(ops, idx, s, pos, groups, k):
    """continuation-passing backtracking matcher; k(pos, groups) -> result or None"""
    if idx == len(ops):
        return k(pos, groups)
    op, av = ops[idx]
    n = len(s)

    def rest(p, g):
        return _match_here(ops, idx + 1, s, p, g, k)

    if op in (sre_c.LITERAL, sre_c.NOT_LITERAL, sre_c.ANY, sre_c.IN):
        if pos >= n:
            return None
        c = s[pos]
        if op == sre_c.LITERAL:
            ok = ch_eq(c, chr(av))
        elif op == sre_c.NOT_LITERAL:
            ok = bnot(ch_eq(c, chr(av)))
        elif op == sre_c.ANY:
            ok = bnot(ch_eq(c, '\n'))
        else:
            ok = _in_set(av, c)
        if not isinstance(ok, bool):
            ok = bool(mkbool(ok))  # forks when symbolic
        if ok:
            return rest(pos + 1, groups)
        return None
    if op in (sre_c.MAX_REPEAT, sre_c.MIN_REPEAT):
        lo, hi, sub = av
        sub = list(sub)

        def rep(count, p, g):
            if op == sre_c.MIN_REPEAT:
                if count >= lo:
                    r = rest(p, g)
                    if r is not None:
                        return r
                if count < hi:
                    return _match_here(sub, 0, s, p, g,
                                       lambda p2, g2: rep(count + 1, p2, g2)
                                       if p2 > p or count + 1 < lo else None)
                return None
            if count < hi:
                r = _match_here(sub, 0, s, p, g,
                                lambda p2, g2: rep(count + 1, p2, g2) if p2 > p else None)
                if r is not None:
                    return r
            if count >= lo:
                return rest(p, g)
            return None
        return rep(0, pos, groups)
    if op == sre_c.SUBPATTERN:
        gid, _a, _b, sub = av
        start = pos

        def after(p2, g2):
            if gid is not None:
                g2 = dict(g2)
                g2[gid] = (start, p2)
            return rest(p2, g2)
        return _match_here(list(sub), 0, s, pos, groups, after)
    if op == sre_c.BRANCH:
        _, alts = av
        for alt in alts:
            r = _match_here(list(alt), 0, s, pos, groups, rest)
            if r is not None:
                return r
        return None
    if op == sre_c.AT:
        if av in (sre_c.AT_BEGINNING, sre_c.AT_BEGINNING_STRING):
            return rest(pos, groups) if pos == 0 else None
        if av in (sre_c.AT_END_STRING,):
            return rest(pos, groups) if pos == n else None
    raise Unsupported("regex op %s" % op)


class SymMatch:
    def __init__(self, s, start, end, groups, ngroups):
        self._s, self._start, self._end, self._g, self._n = s, start, end, groups, ngroups

    def span(self, g=0):
        if g == 0:
            return (self._start, self._end)
        return self._g.get(g, (-1, -1))

    def start(self, g=0):
        return self.span(g)[0]

    def end(self, g=0):
        return self.span(g)[1]

    def group(self, g=0):
        a, b = self.span(g)
        if a < 0:
            return None
        return SymStr.mk(self._s[a:b])

    def groups(self):
        return tuple(self.group(i) for i in range(1, self._n + 1))


def sym_finditer(pattern, string):
    s = SymStr.lift(string)._chs
    tree = sre_parse.parse(pattern)
    ops = list(tree)
    ngroups = tree.state.groups - 1
    pos = 0
    n = len(s)
    while pos <= n:
        r = _match_here(ops, 0, s, pos, {}, lambda p, g: (p, g))
        if r is None:
            pos += 1
            continue
        end, g = r
        yield SymMatch(s, pos, end, g, ngroups)
        pos = end if end > pos else pos + 1


def _sym_match_at(pattern, string, pos, full=False):
    s = SymStr.lift(string)._chs
    tree = sre_parse.parse(pattern)
    ops = list(tree)
    ngroups = tree.state.groups - 1
    n = len(s)
    k = (lambda p, g: (p, g) if p == n else None) if full else (lambda p, g: (p, g))
    r = _match_here(ops, 0, s, pos, {}, k)
    if r is None:
        return None
    end, g = r
    return SymMatch(s, pos, end, g, ngroups)


def sym_match(pattern, string):
    return _sym_match_at(pattern, string, 0)


def sym_fullmatch(pattern, string):
    return _sym_match_at(pattern, string, 0, full=True)


def sym_search(pattern, string):
    for pos in range(len(SymStr.lift(string)) + 1):
        m = _sym_match_at(pattern, string, pos)
        if m is not None:
            return m
    return None


def sym_findall(pattern, string):
    out = []
    for m in sym_finditer(pattern, string):
        if m._n == 0:
            out.append(m.group(0))
        elif m._n == 1:
            out.append(m.group(1))
        else:
            out.append(m.groups())
    return out


# --------------------------------------------------------------------------
# runtime entry points used by rewritten code
# --------------------------------------------------------------------------
def _is_plain_table(obj):
    return (type(obj) is dict and obj and not any(is_sym(x) for x in obj))


_MEMOS = []     # caches created by the modelled functools.lru_cache / cache; emptied at the start of every path


def sym_memo(fn):
    """model of functools.lru_cache / functools.cache for functions called with symbolic arguments: the C implementation
    hashes its arguments; this one keeps (arguments, result) pairs and compares the arguments with ==, which forks through
    the engine.  The cached *object* is returned, as the real cache does (mutations of it are visible to later callers)."""
    entries = []
    _MEMOS.append(entries)

    def eq(x, y):
        if type(x) is tuple and type(y) is tuple:
            return band(*[eq(a, b) for a, b in zip(x, y)]) if len(x) == len(y) else False
        if is_sym(x) or is_sym(y):
            return x == y
        return type(x) is type(y) and x == y

    def wrapper(*a, **kw):
        key = (tuple(a), tuple(sorted(kw.items())))
        for k, v in entries:
            if eq(k, key):
                return v
        v = fn(*a, **kw)
        entries.append((key, v))
        return v
    wrapper.cache_clear = lambda: entries.clear()
    wrapper.__wrapped__ = fn
    wrapper.__name__ = getattr(fn, '__name__', 'memo')
    wrapper.__doc__ = getattr(fn, '__doc__', None)
    return wrapper


class SymSet:
    """a set display with symbolic elements ({a[0], b[0]}): elements kept pairwise distinct by forking on equality;
    comparisons and membership are decided element-wise (they fork through the engine)"""

    def __init__(self, items=()):
        self._items = []
        for x in items:
            self.add(x)

    @staticmethod
    def _elems(o):
        if isinstance(o, SymSet):
            return list(o._items)
        if isinstance(o, (set, frozenset, list, tuple, dict)):
            return list(o)
        return None

    def _has(self, x):
        for y in self._items:
            if y == x:              # forks when symbolic
                return True
        return False

    def add(self, x):
        if not self._has(x):
            self._items.append(x)

    def discard(self, x):
        for i, y in enumerate(self._items):
            if y == x:
                del self._items[i]
                return

    def remove(self, x):
        n = len(self._items)
        self.discard(x)
        if len(self._items) == n:
            raise KeyError(x)

    def __len__(self):
        return len(self._items)

    def __iter__(self):
        items = list(self._items)
        if RT.set_order_hook is not None:
            items = RT.set_order_hook(items)
        return iter(items)

    def __contains__(self, x):
        return self._has(x)

    def __bool__(self):
        return bool(self._items)

    def issubset(self, o):
        other = SymSet._elems(o)
        if other is None:
            return NotImplemented
        o2 = o if isinstance(o, SymSet) else SymSet(other)
        return all(o2._has(x) for x in self._items)

    def issuperset(self, o):
        other = SymSet._elems(o)
        if other is None:
            return NotImplemented
        return all(self._has(x) for x in other)

    def __le__(self, o): return self.issubset(o)
    def __ge__(self, o): return self.issuperset(o)

    def __eq__(self, o):
        other = SymSet._elems(o)
        if other is None or isinstance(o, (list, tuple, dict)):
            return False
        o2 = o if isinstance(o, SymSet) else SymSet(other)
        return len(o2) == len(self) and self.issubset(o2)

    def __ne__(self, o):
        return not self.__eq__(o)

    def __lt__(self, o):
        r = self.issubset(o)
        return r if r is NotImplemented else (r and len(self) < len(o if isinstance(o, SymSet) else SymSet(SymSet._elems(o))))

    def __gt__(self, o):
        r = self.issuperset(o)
        return r if r is NotImplemented else (r and len(self) > len(o if isinstance(o, SymSet) else SymSet(SymSet._elems(o))))

    def union(self, *others):
        r = SymSet(self._items)
        for o in others:
            for x in SymSet._elems(o):
                r.add(x)
        return r

    def intersection(self, *others):
        r = SymSet(self._items)
        for o in others:
            o2 = o if isinstance(o, SymSet) else SymSet(SymSet._elems(o))
            r = SymSet([x for x in r._items if o2._has(x)])
        return r

    def difference(self, *others):
        r = SymSet(self._items)
        for o in others:
            o2 = o if isinstance(o, SymSet) else SymSet(SymSet._elems(o))
            r = SymSet([x for x in r._items if not o2._has(x)])
        return r

    def isdisjoint(self, o):
        return len(self.intersection(o)) == 0

    __or__ = union
    __ror__ = union
    __and__ = intersection
    __rand__ = intersection
    __sub__ = difference

    def __rsub__(self, o):
        return SymSet(SymSet._elems(o)).difference(self)

    def copy(self):
        return SymSet(self._items)

    def __hash__(self):
        raise Unsupported("hash of a set with symbolic elements")

    def __repr__(self):
        return "SymSet(%r)" % (self._items,)


class RT:
    _hash_ok = False
    call_hooks = []        # [(predicate(f, a, kw) -> bool, handler(f, a, kw))]
    set_order_hook = None  # callable(list_of_items) -> list (C12 set-iteration model)

    # ---- membership
    @staticmethod
    def contains(item, cont):
        if isinstance(cont, (str, SymStr)):
            if isinstance(item, (str, SymStr)):
                if isinstance(cont, str) and isinstance(item, str):
                    return item in cont
                return SymStr.lift(cont).contains(item)
            raise TypeError("'in <string>' requires string as left operand")
        if isinstance(cont, SymSet):
            return bor(*[(k == item) for k in cont._items])
        if isinstance(cont, (dict, list, tuple, set, frozenset)) or type(cont).__name__ in ('dict_keys', 'dict_values'):
            def symbolic(x):
                return is_sym(x) or (type(x) is tuple and any(is_sym(y) for y in x))
            if symbolic(item) or any(symbolic(k) for k in cont):
                def eq(a, b):
                    if type(a) is tuple and type(b) is tuple:
                        return band(len(a) == len(b), *[eq(x, y) for x, y in zip(a, b)]) if len(a) == len(b) else False
                    return a == b
                return bor(*[eq(k, item) for k in cont])
        return item in cont

    @staticmethod
    def decorator(d):
        import functools
        if d is functools.lru_cache or d is getattr(functools, 'cache', None):
            return sym_memo
        return d

    @staticmethod
    def mkset(items):
        items = list(items)
        if any(is_sym(x) or (type(x) is tuple and any(is_sym(y) for y in x)) for x in items):
            return SymSet(items)
        return set(items)

    @staticmethod
    def not_contains(item, cont):
        return bnot(RT.contains(item, cont))

    # ---- dict helpers
    @staticmethod
    def _key(d, k):
        """find the key of dict d that equals k (forks per candidate)"""
        def symbolic(x):
            return is_sym(x) or (type(x) is tuple and any(is_sym(y) for y in x))
        if symbolic(k) or any(symbolic(x) for x in d):
            for kk in d:
                if type(kk) is tuple or type(k) is tuple:
                    if type(kk) is tuple and type(k) is tuple and len(kk) == len(k) and band(*[a == b for a, b in zip(kk, k)]):
                        return kk, True
                    continue
                if kk == k:   # forks when symbolic
                    return kk, True
            return k, False
        return k, None

    @staticmethod
    def _table_lookup(obj, k):
        """constant table with a symbolic key: int / 1-char values are merged
        into one ite term (no fork); other values fork per distinct value"""
        conds = [(unwrap_bool(kk == k), v) for kk, v in obj.items()]
        conds = [(c, v) for c, v in conds if c is not False]
        if not conds:
            raise KeyError(k)
        anyc = bor(*[c for c, _ in conds])
        if not anyc:    # forks: key may be absent
            raise KeyError(k)

        def is_i(v):
            return type(v) is int

        def is_c(v):
            return isinstance(v, str) and len(v) == 1
        for test, conv, wrap in ((is_i, lambda v: v, 'int'), (is_c, ord, 'chr')):
            merged = [(c, v) for c, v in conds if test(v)]
            if not merged:
                continue
            others = [(c, v) for c, v in conds if not test(v)]
            # fork per distinct non-mergeable value first
            seen = []
            for c, v in others:
                if any(v is w or v == w for w in seen):
                    continue
                seen.append(v)
                if mkbool(bor(*[c2 for c2, v2 in others if v2 is v or v2 == v])):
                    return v
            e = z3.IntVal(conv(merged[-1][1]))
            for c, v in reversed(merged[:-1]):
                e = z3.If(c, conv(v), e) if not isinstance(c, bool) else (z3.IntVal(conv(v)) if c else e)
            e = z3.simplify(e)
            if wrap == 'int':
                return SymInt.mk(e)
            if z3.is_int_value(e):
                return chr(e.as_long())
            return SymStr([e])
        for c, v in conds:
            if mkbool(c):
                return v
        raise KeyError(k)

    @staticmethod
    def getitem(obj, k):
        if isinstance(obj, dict):
            if is_sym(k) and _is_plain_table(obj):
                return RT._table_lookup(obj, k)
            kk, found = RT._key(obj, k)
            if found is False:
                if getattr(obj, 'default_factory', None) is not None:
                    v = obj.default_factory()
                    RT.setitem(obj, k, v)
                    return v
                raise KeyError(k)
            RT._hash_ok = True
            try:
                return obj[kk]
            finally:
                RT._hash_ok = False
        if isinstance(obj, (str, list, tuple)) and isinstance(k, SymInt):
            k = int(k)
        if isinstance(k, slice) and any(isinstance(x, SymInt) for x in (k.start, k.stop, k.step)):
            k = slice(*[int(x) if isinstance(x, SymInt) else x for x in (k.start, k.stop, k.step)])
        return obj[k]

    @staticmethod
    def setitem(obj, k, v):
        if isinstance(obj, dict):
            kk, found = RT._key(obj, k)
            RT._hash_ok = True
            try:
                obj[kk] = v
            finally:
                RT._hash_ok = False
            return
        if isinstance(obj, list) and isinstance(k, SymInt):
            k = int(k)
        obj[k] = v

    @staticmethod
    def delitem(obj, k):
        if isinstance(obj, dict):
            kk, found = RT._key(obj, k)
            if found is False:
                raise KeyError(k)
            RT._hash_ok = True
            try:
                del obj[kk]
            finally:
                RT._hash_ok = False
            return
        del obj[k]

    @staticmethod
    def mkdict(pairs):
        d = {}
        for k, v in pairs:
            RT.setitem(d, k, v)
        return d

    # ---- calls
    @staticmethod
    def call(f, *a, **kw):
        for pred, handler in RT.call_hooks:
            if pred(f, a, kw):
                return handler(f, a, kw)
        if f is _functools.lru_cache:
            return sym_memo(a[0]) if (a and callable(a[0])) else sym_memo
        if f is int and len(a) == 1 and not kw:
            x = a[0]
            if isinstance(x, SymStr):
                return x.to_int()
            if isinstance(x, SymInt):
                return x
            if isinstance(x, SymBool):
                return SymInt.mk(z3.If(x.e, 1, 0))
            if isinstance(x, SymReal):
                # int() truncates toward zero
                fl = z3.ToInt(x.e)
                return SymInt.mk(z3.If(x.e >= 0, fl, z3.If(z3.ToReal(fl) == x.e, fl, fl + 1)))
        elif f is float and len(a) == 1 and not kw:
            x = a[0]
            if isinstance(x, SymStr):
                return sym_float(x)
            if isinstance(x, SymReal):
                return x
            if isinstance(x, SymInt):
                return SymReal.mk(z3.ToReal(x.e))
        elif f is str and len(a) == 1 and not kw:
            if is_sym(a[0]):
                return sym_str(a[0])
        elif f is bool and len(a) == 1 and is_sym(a[0]):
            return mkbool(unwrap_bool(a[0])) if not isinstance(a[0], SymStr) else bool(a[0])
        elif f is len and len(a) == 1 and isinstance(a[0], SymStr):
            return len(a[0])
        elif f is isinstance and len(a) == 2 and is_sym(a[0]):
            return RT._isinstance(a[0], a[1])
        elif f is re.finditer and isinstance(a[1], SymStr):
            return sym_finditer(a[0], a[1])
        elif f is re.findall and isinstance(a[1], SymStr):
            return sym_findall(a[0], a[1])
        elif f in (re.match, re.fullmatch, re.search) and len(a) >= 2 and isinstance(a[1], SymStr):
            if len(a) > 2 or kw:
                raise Unsupported("regex flags on a symbolic string")
            return {re.match: sym_match, re.fullmatch: sym_fullmatch, re.search: sym_search}[f](a[0], a[1])
        elif f is print:
            return None
        elif f is max or f is min:
            if any(is_sym(x) for x in a) and not kw and len(a) >= 2:
                return RT._maxmin(f is max, a)
        elif f is abs and len(a) == 1 and is_sym(a[0]):
            return abs(a[0])
        elif f is hash and is_sym(a[0]):
            raise Unsupported("hash() of symbolic value")
        elif f in (set, frozenset) and a and not isinstance(a[0], (str, SymStr)):
            items = list(a[0])          # may be a one-shot iterator: hand the list on
            if any(is_sym(x) for x in items):
                # symbolic elements share one hash bucket; the set's own equality tests fork through the engine
                RT._hash_ok = True
                try:
                    return f(items)
                finally:
                    RT._hash_ok = False
            a = (items,) + tuple(a[1:])
        elif f is list and len(a) == 1 and isinstance(a[0], (set, frozenset)) and RT.set_order_hook:
            return RT.set_order_hook(list(a[0]))
        elif f is dict and a and isinstance(a[0], (zip, list)):
            pairs = list(a[0])
            if any(is_sym(k) for k, _ in pairs):
                return RT.mkdict(pairs)
            a = (pairs,) + a[1:]
        return f(*a, **kw)

    @staticmethod
    def _isinstance(x, t):
        ts = t if isinstance(t, tuple) else (t,)
        for tt in ts:
            if tt is str and isinstance(x, SymStr):
                return True
            if tt is int and isinstance(x, (SymInt,)):
                return True
            if tt is float and isinstance(x, SymReal):
                return True
            if tt is bool and isinstance(x, SymBool):
                return True
        return False

    @staticmethod
    def _maxmin(is_max, a):
        r = a[0]
        for x in a[1:]:
            c = (x > r) if is_max else (x < r)
            r = ite(c, x, r)
        return r

    @staticmethod
    def callm(obj, name, *a, **kw):
        if isinstance(obj, re.Pattern) and a and isinstance(a[0], SymStr):
            # a compiled pattern applied to a symbolic string: same matcher as the module-level functions
            if len(a) == 2 and not kw and type(a[1]) is int and 0 <= a[1] <= len(a[0]) and not (obj.flags & ~re.UNICODE) \
               and name in ('match', 'fullmatch', 'search'):
                # Pattern.match(string, pos): the matcher works on positions of the whole string, as re does
                if name == 'search':
                    for at in range(a[1], len(a[0]) + 1):
                        m = _sym_match_at(obj.pattern, a[0], at)
                        if m is not None:
                            return m
                    return None
                return _sym_match_at(obj.pattern, a[0], a[1], full=(name == 'fullmatch'))
            if obj.flags & ~re.UNICODE or len(a) > 1 or kw:
                raise Unsupported("compiled regex with flags / positions on a symbolic string")
            fn = {'match': sym_match, 'fullmatch': sym_fullmatch, 'search': sym_search,
                  'finditer': sym_finditer, 'findall': sym_findall}.get(name)
            if fn is None:
                raise Unsupported("re.Pattern.%s on a symbolic string" % name)
            return fn(obj.pattern, a[0])
        if isinstance(obj, str):
            if name == 'join' and a:
                a = (list(a[0]),) + tuple(a[1:])        # (a generator argument is consumed once only)
            if any(is_sym(x) for x in a) or (name == 'join' and a and any(is_sym(x) for x in list(a[0]))) \
               or (name == 'format' and any(is_sym(x) for x in kw.values())):
                if name == 'join':
                    a = (list(a[0]),)
                obj = SymStr.lift(obj)
        if isinstance(obj, dict) and name in ('get', 'pop', 'setdefault') and a:
            if is_sym(a[0]) and _is_plain_table(obj) and name == 'get':
                try:
                    return RT._table_lookup(obj, a[0])
                except KeyError:
                    return a[1] if len(a) > 1 else None
            kk, found = RT._key(obj, a[0])
            if found is False:
                if name == 'get':
                    return a[1] if len(a) > 1 else None
                if name == 'pop' and len(a) > 1:
                    return a[1]
                if name == 'setdefault':
                    RT.setitem(obj, a[0], a[1] if len(a) > 1 else None)
                    return a[1] if len(a) > 1 else None
                raise KeyError(a[0])
            a = (kk,) + tuple(a[1:])
            RT._hash_ok = True
            try:
                return getattr(obj, name)(*a, **kw)
            finally:
                RT._hash_ok = False
        if isinstance(obj, set) and name in ('add', 'discard', 'remove') and a and (is_sym(a[0]) or any(is_sym(x) for x in obj)):
            # a concrete element never meets symbolic ones inside the hash table: scan explicitly
            hit = None
            for x in list(obj):
                if x == a[0]:            # forks when symbolic
                    hit = x
                    break
            RT._hash_ok = True
            try:
                if name == 'add':
                    if hit is None:
                        obj.add(a[0])
                    return None
                if hit is None:
                    if name == 'remove':
                        raise KeyError(a[0])
                    return None
                # remove by identity: rebuild without the hit
                rest = [x for x in obj if x is not hit]
                obj.clear()
                for x in rest:
                    obj.add(x)
                return None
            finally:
                RT._hash_ok = False
        if isinstance(obj, dict) and name == 'update' and len(a) == 1 and isinstance(a[0], dict) and not kw:
            if any(is_sym(k) for k in a[0]) or any(is_sym(k) for k in obj):
                for k, v in a[0].items():
                    RT.setitem(obj, k, v)
                return None
        return RT.call(getattr(obj, name), *a, **kw)

    @staticmethod
    def iter_set(s):
        if isinstance(s, (set, frozenset)) and RT.set_order_hook is not None:
            return iter(RT.set_order_hook(list(s)))
        return iter(s)

    @staticmethod
    def fstr(*parts):
        out = []
        for p in parts:
            out.extend(SymStr.lift(sym_str(p))._chs)
        return SymStr.mk(out)


# --------------------------------------------------------------------------
# AST rewrite
# --------------------------------------------------------------------------
class Rewriter(ast.NodeTransformer):
    def _rt(self, name):
        return ast.Attribute(value=ast.Name(id='__rt__', ctx=ast.Load()), attr=name, ctx=ast.Load())

    def visit_Compare(self, node):
        self.generic_visit(node)
        if len(node.ops) == 1 and isinstance(node.ops[0], (ast.In, ast.NotIn)):
            fn = 'contains' if isinstance(node.ops[0], ast.In) else 'not_contains'
            return ast.copy_location(
                ast.Call(func=self._rt(fn), args=[node.left, node.comparators[0]], keywords=[]), node)
        if any(isinstance(o, (ast.In, ast.NotIn)) for o in node.ops):
            raise Unsupported("chained in")
        if len(node.ops) > 1:
            # a == b == c  ->  band(a == b, b == c) (operands here are side-effect free names/subscripts)
            parts = []
            left = node.left
            for op, right in zip(node.ops, node.comparators):
                parts.append(ast.Compare(left=left, ops=[op], comparators=[right]))
                left = right
            return ast.copy_location(
                ast.Call(func=self._rt('chain_and'), args=parts, keywords=[]), node)
        return node

    def visit_Subscript(self, node):
        self.generic_visit(node)
        if isinstance(node.ctx, ast.Load):
            return ast.copy_location(
                ast.Call(func=self._rt('getitem'), args=[node.value, node.slice], keywords=[]), node)
        return node

    def visit_Slice(self, node):
        self.generic_visit(node)
        none = ast.Constant(None)
        return ast.copy_location(
            ast.Call(func=ast.Name(id='slice', ctx=ast.Load()),
                     args=[node.lower or none, node.upper or none, node.step or none], keywords=[]), node)

    def visit_Assign(self, node):
        if len(node.targets) == 1 and isinstance(node.targets[0], ast.Subscript):
            t = node.targets[0]
            val = self.visit(node.value)
            obj = self.visit(t.value)
            key = self.visit(t.slice)
            call = ast.Call(func=self._rt('setitem'), args=[obj, key, val], keywords=[])
            return ast.copy_location(ast.Expr(value=call), node)
        self.generic_visit(node)
        return node

    def visit_AugAssign(self, node):
        if isinstance(node.target, ast.Subscript):
            t = node.target
            obj = self.visit(t.value)
            key = self.visit(t.slice)
            val = self.visit(node.value)
            call = ast.Call(func=self._rt('augassign'),
                            args=[obj, key, ast.Constant(type(node.op).__name__), val], keywords=[])
            return ast.copy_location(ast.Expr(value=call), node)
        self.generic_visit(node)
        return node

    def visit_Delete(self, node):
        if len(node.targets) == 1 and isinstance(node.targets[0], ast.Subscript):
            t = node.targets[0]
            call = ast.Call(func=self._rt('delitem'),
                            args=[self.visit(t.value), self.visit(t.slice)], keywords=[])
            return ast.copy_location(ast.Expr(value=call), node)
        self.generic_visit(node)
        return node

    def visit_Call(self, node):
        self.generic_visit(node)
        for kw in node.keywords:
            if kw.arg is None:      # **mapping: keys must be real str -> concretise symbolic keys by forking
                kw.value = ast.copy_location(
                    ast.Call(func=self._rt('kwkeys'), args=[kw.value], keywords=[]), kw.value)
        if isinstance(node.func, ast.Attribute) and isinstance(node.func.ctx, ast.Load):
            if isinstance(node.func.value, ast.Name) and node.func.value.id == '__rt__':
                return node
            return ast.copy_location(
                ast.Call(func=self._rt('callm'),
                         args=[node.func.value, ast.Constant(node.func.attr)] + node.args,
                         keywords=node.keywords), node)
        if isinstance(node.func, ast.Name) and node.func.id in ('super', 'locals', 'globals', 'slice'):
            return node
        return ast.copy_location(
            ast.Call(func=self._rt('call'), args=[node.func] + node.args, keywords=node.keywords), node)

    def visit_Dict(self, node):
        self.generic_visit(node)
        if any(k is None for k in node.keys):
            return node
        if all(isinstance(k, ast.Constant) for k in node.keys):
            return node
        pairs = ast.List(elts=[ast.Tuple(elts=[k, v], ctx=ast.Load())
                               for k, v in zip(node.keys, node.values)], ctx=ast.Load())
        return ast.copy_location(ast.Call(func=self._rt('mkdict'), args=[pairs], keywords=[]), node)

    def visit_FunctionDef(self, node):
        self.generic_visit(node)
        node.decorator_list = [ast.copy_location(ast.Call(func=self._rt('decorator'), args=[d], keywords=[]), d)
                               for d in node.decorator_list]
        return node

    def visit_Set(self, node):
        self.generic_visit(node)
        if all(isinstance(e, ast.Constant) for e in node.elts) or any(isinstance(e, ast.Starred) for e in node.elts):
            return node
        return ast.copy_location(ast.Call(func=self._rt('mkset'), args=[ast.List(elts=node.elts, ctx=ast.Load())], keywords=[]), node)

    def visit_SetComp(self, node):
        self.generic_visit(node)
        lc = ast.ListComp(elt=node.elt, generators=node.generators)
        return ast.copy_location(ast.Call(func=self._rt('mkset'), args=[lc], keywords=[]), node)

    def visit_DictComp(self, node):
        self.generic_visit(node)
        lc = ast.ListComp(elt=ast.Tuple(elts=[node.key, node.value], ctx=ast.Load()),
                          generators=node.generators)
        return ast.copy_location(ast.Call(func=self._rt('mkdict'), args=[lc], keywords=[]), node)

    def visit_For(self, node):
        self.generic_visit(node)
        node.iter = ast.copy_location(
            ast.Call(func=self._rt('iter_any'), args=[node.iter], keywords=[]), node.iter)
        return node

    def visit_comprehension(self, node):
        self.generic_visit(node)
        node.iter = ast.copy_location(
            ast.Call(func=self._rt('iter_any'), args=[node.iter], keywords=[]), node.iter)
        return node

    def visit_JoinedStr(self, node):
        self.generic_visit(node)
        parts = []
        for v in node.values:
            if isinstance(v, ast.Constant):
                parts.append(v)
            elif isinstance(v, ast.FormattedValue):
                if v.format_spec is not None or v.conversion != -1:
                    return node     # keep native (only used for error messages)
                parts.append(v.value)
        return ast.copy_location(ast.Call(func=self._rt('fstr'), args=parts, keywords=[]), node)


def _chain_and(*parts):
    return band(*parts)


def _augassign(obj, key, opname, val):
    import operator
    ops = {'Add': operator.add, 'Sub': operator.sub, 'Mult': operator.mul,
           'Div': operator.truediv, 'FloorDiv': operator.floordiv, 'Mod': operator.mod}
    cur = RT.getitem(obj, key)
    if opname == 'Add' and isinstance(cur, list):
        cur += val           # in-place semantics of list +=
        RT.setitem(obj, key, cur)
        return
    RT.setitem(obj, key, ops[opname](cur, val))


def _iter_any(x):
    if isinstance(x, (set, frozenset)):
        return RT.iter_set(x)
    return x


def _fstr_safe(*parts):
    try:
        return RT_fstr_impl(*parts)
    except Unsupported:
        return "<symbolic message>"


def concretize_str(x):
    """real str for a (possibly symbolic) string; symbolic characters are concretised by forking"""
    if isinstance(x, str):
        return x
    return ''.join(i if isinstance(i, str) else chr(ENG.concretize_int(i)) for i in SymStr.lift(x)._chs)


def _kwkeys(d):
    if not any(is_sym(k) for k in d):
        return d
    return {concretize_str(k): v for k, v in d.items()}


RT.kwkeys = staticmethod(_kwkeys)
RT_fstr_impl = RT.fstr
RT.chain_and = staticmethod(_chain_and)
RT.augassign = staticmethod(_augassign)
RT.iter_any = staticmethod(_iter_any)
RT.fstr = staticmethod(_fstr_safe)


def rewrite_source(src, path):
    tree = ast.parse(src, path)
    tree = Rewriter().visit(tree)
    ast.fix_missing_locations(tree)
    return compile(tree, path, 'exec')


def load_rewritten(modname, path, pkg=None, extra_globals=None, src=None):
    if src is None:
        with open(path) as fh:
            src = fh.read()
    code = rewrite_source(src, path)
    mod = types.ModuleType(modname)
    mod.__file__ = path
    mod.__package__ = pkg
    mod.__dict__['__rt__'] = RT
    if extra_globals:
        mod.__dict__.update(extra_globals)
    sys.modules[modname] = mod
    exec(code, mod.__dict__)
    return mod


# --------------------------------------------------------------------------
# hole constructors
# --------------------------------------------------------------------------
ALNUM = frozenset(range(48, 58)) | frozenset(range(65, 91)) | frozenset(range(97, 123))


def sym_char(name, allowed=None, lo=32, hi=126):
    if allowed is not None:
        allowed = [ord(c) if isinstance(c, str) else c for c in allowed]
        return ENG.fresh_int(name, min(allowed), max(allowed), allowed=allowed)
    return ENG.fresh_int(name, lo, hi)


def sym_alnum(name):
    return ENG.fresh_int(name, 48, 122, allowed=ALNUM)


def sym_string(name, n, **kw):
    return SymStr([sym_char("%s_%d" % (name, i), **kw) for i in range(n)])


def sym_int(name, lo, hi):
    return SymInt(ENG.fresh_int(name, lo, hi))


def sym_real(name):
    return SymReal(ENG.fresh_real(name))


def cat(*parts):
    """concatenate str / SymStr / z3 char terms / lists of those into a string"""
    items = []
    for p in parts:
        if isinstance(p, str):
            items.extend(p)
        elif isinstance(p, SymStr):
            items.extend(p._chs)
        elif isinstance(p, z3.ExprRef):
            items.append(p)
        elif isinstance(p, (list, tuple)):
            items.extend(SymStr.lift(cat(*p))._chs if p else ())
        else:
            raise TypeError("cat: %r" % type(p))
    return SymStr.mk(items)


# --------------------------------------------------------------------------
# summaries of pure predicates (compositional step)
# --------------------------------------------------------------------------
def summarise_bool(f, *args, **kw):
    """Explore a pure bool-returning function in a nested engine, under the
    outer path condition, and fold its feasible paths into one boolean term."""
    global ENG
    outer = ENG
    sub = Engine(base=list(outer.solver.assertions()))
    sub.dom = outer.dom
    saved_dom = outer.dom
    ENG = sub
    alts = []
    excs = []
    try:
        while True:
            sub.start_run()
            sub.dom = saved_dom
            try:
                r = f(*args, **kw)
                r = unwrap_bool(r)
                pc = z3.And(*sub.trail) if sub.trail else z3.BoolVal(True)
                if r is True:
                    alts.append(pc)
                elif r is not False:
                    alts.append(z3.And(pc, r))
            except PathAbort:
                pass
            except Exception as exc:   # the summarised function raised: not pure-boolean
                excs.append(exc)
            if not sub.finish_run():
                break
    finally:
        ENG = outer
        for k in ('checks', 'solver_s', 'branches'):
            outer.stats[k] += sub.stats[k]
        outer.stats['summary_paths'] = outer.stats.get('summary_paths', 0) + sub.stats['paths']
    if excs:
        raise Unsupported("summarised function raised %r" % excs[0])
    return bor(*alts)


# --------------------------------------------------------------------------
# model evaluation / concretisation
# --------------------------------------------------------------------------
def eval_term(model, e, kind='int'):
    v = model.eval(e, model_completion=True)
    if z3.is_int_value(v):
        return v.as_long()
    if z3.is_rational_value(v):
        return fractions.Fraction(v.numerator_as_long(), v.denominator_as_long())
    if z3.is_true(v):
        return True
    if z3.is_false(v):
        return False
    if z3.is_algebraic_value(v):
        a = v.approx(20)
        return fractions.Fraction(a.numerator_as_long(), a.denominator_as_long())
    raise Unsupported("cannot evaluate %s -> %s" % (e, v))


def concretize(x, model, _memo=None):
    """replace every symbolic value inside x by its value under ``model``"""
    import networkx as nx
    if _memo is None:
        _memo = {}
    if isinstance(x, SymStr):
        return ''.join(i if isinstance(i, str) else chr(eval_term(model, i)) for i in x._chs)
    if isinstance(x, SymInt):
        return eval_term(model, x.e)
    if isinstance(x, SymReal):
        v = eval_term(model, x.e)
        return v
    if isinstance(x, SymBool):
        return bool(eval_term(model, x.e))
    if isinstance(x, z3.ExprRef):
        return eval_term(model, x)
    if isinstance(x, (str, int, float, bool, type(None), bytes)):
        return x
    if id(x) in _memo:
        return _memo[id(x)]
    if isinstance(x, list):
        out = []
        _memo[id(x)] = out
        out.extend(concretize(i, model, _memo) for i in x)
        return out
    if isinstance(x, tuple):
        return tuple(concretize(i, model, _memo) for i in x)
    if isinstance(x, dict):
        out = type(x)() if type(x) is dict else {}
        _memo[id(x)] = out
        for k, v in x.items():
            out[concretize(k, model, _memo)] = concretize(v, model, _memo)
        return out
    if isinstance(x, (set, frozenset)):
        return type(x)(concretize(i, model, _memo) for i in x)
    if isinstance(x, nx.Graph):
        g = type(x)()
        _memo[id(x)] = g
        g.graph.update(concretize(dict(x.graph), model, _memo))
        for n, d in x.nodes(data=True):
            g.add_node(concretize(n, model, _memo), **{k: concretize(v, model, _memo) for k, v in d.items()})
        for a, b, d in x.edges(data=True):
            g.add_edge(concretize(a, model, _memo), concretize(b, model, _memo),
                       **{k: concretize(v, model, _memo) for k, v in d.items()})
        return g
    return x
