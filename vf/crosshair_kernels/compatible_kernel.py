"""Second engine (CrossHair 0.0.110, z3) on the leaf kernel `compatible`: never decides a property, recorded only.
Run by `./check C03 --tier thorough` as
    python -m crosshair check --report_all --per_condition_timeout 90 vf/crosshair_kernels/compatible_kernel.py
"""
from cgsmiles.resolve import compatible


def _ref(left: str, right: str, legacy: bool) -> bool:
    ka, kb = left[0], right[0]
    same = ka in '$!' and ka == kb
    lr = (ka == '<' and kb == '>') or (ka == '>' and kb == '<')
    if legacy:
        return (same or lr) and left[1:] == right[1:]
    return same or lr


def compatible_agrees_with_the_documented_relation(left: str, right: str, legacy: bool) -> bool:
    """
    pre: 2 <= len(left) <= 4 and 2 <= len(right) <= 4
    pre: left[0] in '$!<>' and right[0] in '$!<>'
    post: _ == True
    """
    return compatible(left, right, legacy=legacy) == _ref(left, right, legacy)
