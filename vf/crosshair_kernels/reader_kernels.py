"""Second engine (CrossHair) on leaf kernels of the reader / sampler; recorded only, never decides a property."""
from typing import List

from cgsmiles.read_cgsmiles import _find_next_character
from cgsmiles.sample import _set_bond_order_defaults
from cgsmiles.cgsmiles_utils import find_complementary_bonding_descriptor


def find_next_character_is_first_hit_or_length(string: str, start: int) -> bool:
    """
    pre: len(string) <= 5 and 0 <= start <= len(string)
    post: _ == True
    """
    chars = ['[', ')', '(', '}']
    got = _find_next_character(string, chars, start)
    want = len(string)
    for i in range(start, len(string)):
        if string[i] in chars:
            want = i
            break
    return got == want


def order_defaults_append_one_unless_digit(descriptor: str) -> bool:
    """
    pre: 1 <= len(descriptor) <= 4
    post: _ == True
    """
    out = _set_bond_order_defaults([descriptor])
    if descriptor[-1].isdigit():
        return out == [descriptor]
    return out == [descriptor + '1']


def complement_of_directed_descriptor(label: str, forward: bool) -> bool:
    """
    pre: len(label) <= 3
    post: _ == True
    """
    d = ('>' if forward else '<') + label + '1'
    c = ('<' if forward else '>') + label + '1'
    return find_complementary_bonding_descriptor(d, [c, d]) == [c]
