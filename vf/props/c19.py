"""C19 -- 2D layout gives every node a position at the requested scale (placement engines stubbed)."""
import itertools
import time

import networkx as nx
import numpy as np
import z3

from .. import core, gen_graph as gg, loader, symx
from ..symx import SymReal, band, sym_real
from .c18 import SymVec


class Placement:
    """environment stub: the two networkx placement engines return an arbitrary finite position per node;
    np.linalg.norm(v) is a fresh L >= 0 with L^2 = v.v (exact reals)"""

    def __init__(self):
        self.reset()

    def reset(self):
        self.placed = None
        self.norms = []     # (vector components, L)

    def layout(self, graph):
        if self.placed is None:
            self.placed = {n: SymVec([sym_real('pl_%s_x' % n), sym_real('pl_%s_y' % n)]) for n in graph.nodes}
        return {n: SymVec(list(v.xs)) for n, v in self.placed.items()}

    def norm(self, v):
        L = sym_real('norm%d' % len(self.norms))
        dot = None
        for c in v.xs:
            dot = c * c if dot is None else dot + c * c
        # In the path condition L is only known to be >= 0: the scale identity decided per shape is polynomial in
        # the L_e.  The link L*L = v.v is used (i) in the homogeneity lemma and (ii) when a witness is drawn.
        symx.ENG.add(L.e >= 0)
        self.norms.append((list(v.xs), L, dot))
        return L


PLACE = Placement()


class C19(core.Prop):
    ID = 'C19'
    MODULES = loader.CORE + loader.LAYOUT
    FUNCTIONS = ['vespr_layout', 'check_and_fix_cis_trans']
    STUBS = ['nx.fruchterman_reingold_layout and nx.kamada_kawai_layout return an arbitrary finite position per node (assumed: the mean '
             'bond length of the placement is > 0)', 'np.linalg.norm(v): fresh L >= 0 with L*L = v.v over exact reals',
             'numpy 2-vectors replaced by exact-real vectors; division by a symbolic term eliminated by a fresh quotient q with q*d = n']
    ASSUMPTIONS = ['REDUCED claim: finiteness and non-coincidence of the positions produced by the placement engines (iterative floating-point '
                   'optimisation with its own RNG inside networkx/scipy) are the stub contract, not decided here',
                   'graphs carry no ez_isomer attributes (the cis/trans rotation uses transcendental functions)',
                   'real arithmetic instead of floats',
                   'witness validation runs the unmodified cgsmiles.graph_layout with the same stubs on concrete rational positions whose '
                   'norms are computed in floating point (compared with tolerance 1e-6)']
    OUTSIDE = ['the placement itself (Fruchterman-Reingold / Kamada-Kawai numerics)', 'cis/trans correction', 'align_with rotation']
    BOUNDS = {
        'quick': 'all connected graphs with 2-4 nodes and chains/rings/stars with 5 nodes, each in 3 labelings (atlas keys, reversed '
                 'insertion order, non-contiguous keys); default_bond symbolic > 0',
        'thorough': 'all connected graphs with 2-5 nodes (all labelings <= 4 nodes, 6 for 5 nodes) and chains, rings, stars, fused rings '
                    'with 6-7 nodes',
    }
    LEVEL_TEXT = ('Bounded and REDUCED: with the placement engines replaced by arbitrary positions, z3 (QF_NRA) decides per graph and labeling '
                  'that vespr_layout returns exactly one position per node, each equal to its placed position times one common factor f > 0 with '
                  'f * mean(norms requested for exactly the graph\'s edges) = default_bond; two lemmas discharged once per run (norm homogeneity, '
                  'mean of scaled lengths) turn that into "mean bond length = default_bond".')
    TECHNIQUE = 'symbolic execution of vespr_layout against stubbed placement with symbolic positions and bond length; scale identity + NRA lemmas; z3'
    MAX_PATHS = 200

    def setup_shadow(self, SH):
        mod = SH.graph_layout
        real_np = np

        def pred(f, a, kw):
            return f in (nx.fruchterman_reingold_layout, nx.kamada_kawai_layout, real_np.linalg.norm)

        def handler(f, a, kw):
            if f is real_np.linalg.norm:
                return PLACE.norm(a[0])
            return PLACE.layout(a[0])
        symx.RT.call_hooks = [(pred, handler)]
        symx.RT.set_order_hook = None
        self._lemmas = self._prove_lemmas()

    # -- lemmas (once per worker; results are part of the evidence through extra_counts) ----------------------
    @staticmethod
    def _prove_lemmas():
        out = {}
        t0 = time.time()
        # homogeneity: L^2 = d.d, M^2 = (f d).(f d), L, M >= 0, f > 0  |-  M = f L
        dx, dy, f, L, M = z3.Reals('dx dy f L M')
        s = z3.Solver()
        s.set('timeout', 60000)
        s.add(L >= 0, M >= 0, f > 0, L * L == dx * dx + dy * dy, M * M == (f * dx) * (f * dx) + (f * dy) * (f * dy), M != f * L)
        out['norm_homogeneity'] = str(s.check())
        for ne in (1, 3, 6, 10):
            Ls = z3.Reals(' '.join('L%d' % i for i in range(ne)))
            Ms = z3.Reals(' '.join('M%d' % i for i in range(ne)))
            f, b = z3.Reals('f b')
            s = z3.Solver()
            s.set('timeout', 60000)
            s.add(*[Ms[i] == f * Ls[i] for i in range(ne)])
            s.add(f * (sum(Ls) / ne) == b)
            s.add(sum(Ms) / ne != b)
            out['mean_of_scaled_lengths_%d_edges' % ne] = str(s.check())
        out['_seconds'] = round(time.time() - t0, 3)
        return out

    def extra_counts(self):
        ok = all(v == 'unsat' for k, v in self._lemmas.items() if not k.startswith('_'))
        return {'lemmas_unsat(1=all)': 1 if ok else 0}

    def witness_constraints(self, shape, inp):
        """a witness has to be a real placement: nodes on a line at integer abscissae, norms tied to their vectors"""
        cs = []
        for i, (n, v) in enumerate(sorted((PLACE.placed or {}).items(), key=lambda kv: str(kv[0]))):
            cs.append(symx._real_term(v.xs[0]) == 3 * i + 1)
            cs.append(symx._real_term(v.xs[1]) == 0)
        for vec, L, dot in PLACE.norms:
            cs.append(L.e * L.e == symx._real_term(dot))
        return cs

    def shapes(self, tier):
        from networkx.generators.atlas import graph_atlas_g
        out = []
        q = tier == 'quick'
        nmax = 4 if q else 5
        graphs = [sorted(g.edges) for g in graph_atlas_g() if 2 <= len(g) <= nmax and nx.is_connected(g)]
        extra = [[(i, i + 1) for i in range(4)], [(i, (i + 1) % 5) for i in range(5)], [(0, i) for i in range(1, 5)]]
        if not q:
            extra = [[(i, i + 1) for i in range(5)], [(i, (i + 1) % 6) for i in range(6)], [(0, i) for i in range(1, 7)],
                     [(0, 1), (1, 2), (2, 3), (3, 4), (4, 5), (0, 5), (2, 6), (3, 6)],
                     [(0, 1), (1, 2), (2, 3), (3, 0), (2, 4), (4, 5), (5, 3)]]
        for edges in graphs + [sorted(e) for e in extra]:
            n = max(max(e) for e in edges) + 1
            perms = [list(range(n)), list(reversed(range(n)))]
            if not q and n <= 4:
                perms = [list(p) for p in itertools.permutations(range(n))]
            elif not q and n == 5:
                allp = list(itertools.permutations(range(n)))
                perms = [list(p) for p in allp[::len(allp) // 6][:6]]
            for p in perms:
                out.append({'edges': [list(e) for e in edges], 'n': n, 'perm': p, 'stride': 1})
            out.append({'edges': [list(e) for e in edges], 'n': n, 'perm': list(range(n)), 'stride': 5})
        return out

    def build(self, shape):
        PLACE.reset()
        b = sym_real('default_bond')
        symx.ENG.add(b.e > 0)
        return {'bond': b, 'placed': None}

    @staticmethod
    def _graph(shape):
        g = nx.Graph()
        key = lambda i: 2 + shape['stride'] * i if shape['stride'] > 1 else i
        for i in shape['perm']:            # insertion order permuted
            g.add_node(key(i))
        for a, b in shape['edges']:
            g.add_edge(key(a), key(b))
        return g

    def execute(self, M, shape, inp):
        g = self._graph(shape)
        if getattr(M, 'is_shadow', False):
            r = core.guard(M.graph_layout.vespr_layout, g, default_bond=inp['bond'])
            inp['placed'] = {str(n): list(v.xs) for n, v in (PLACE.placed or {}).items()}
            # stub contract: the placement has a positive mean bond length
            if r[0] == 'ok':
                return ('ok', {str(n): (list(v.xs) if isinstance(v, SymVec) else [float(x) for x in v]) for n, v in r[1].items()})
            return r
        # real code, same stubs, concrete rational placement
        placed = {n: np.array([float(x) for x in (inp['placed'] or {}).get(str(n), [0.0, 0.0])]) for n in g.nodes}
        o1, o2 = nx.fruchterman_reingold_layout, nx.kamada_kawai_layout
        nx.fruchterman_reingold_layout = lambda graph, **kw: {n: v.copy() for n, v in placed.items()}
        nx.kamada_kawai_layout = lambda graph, **kw: {n: v.copy() for n, v in placed.items()}
        try:
            r = core.guard(M.graph_layout.vespr_layout, g, default_bond=float(inp['bond']))
        finally:
            nx.fruchterman_reingold_layout, nx.kamada_kawai_layout = o1, o2
        if r[0] == 'ok':
            return ('ok', {str(n): [float(x) for x in v] for n, v in r[1].items()})
        return r

    def oracle(self, shape, inp, obs):
        g = self._graph(shape)
        if obs[0] != 'ok':
            if obs[1] == 'ZeroDivisionError':
                raise symx.PathAbort()       # mean bond length 0: outside the stub contract
            return [('no_exception', False)]
        ret = obs[1]
        placed = inp['placed']
        cl = [('no_exception', True)]
        cl.append(('one_position_per_node', sorted(ret.keys()) == sorted(str(n) for n in g.nodes)))
        if sorted(ret.keys()) != sorted(str(n) for n in g.nodes):
            return cl
        symbolic = any(symx.is_sym(x) for v in ret.values() for x in v)
        if symbolic:
            # the norms requested by the code are those of exactly the graph's edges
            edges = list(g.edges)
            ok = len(PLACE.norms) == len(edges)
            cl.append(('norms_requested_for_exactly_the_edges', ok))
            if not ok:
                return cl
            conds = []
            for (a, b), (vec, L, _dot) in zip(edges, PLACE.norms):
                pa, pb = placed[str(a)], placed[str(b)]
                conds.append(band(*[gg.val_eq(vec[c], pa[c] - pb[c]) for c in range(2)]))
            cl.append(('norm_arguments_are_edge_vectors', band(*conds)))
            total = None
            for _vec, L, _dot in PLACE.norms:
                total = L if total is None else total + L
            mean = total * (1.0 / len(edges)) if False else SymReal.mk(symx._real_term(total) / len(edges))
            # the common factor is the quotient the code itself formed: default_bond / mean(requested norms)
            quots = symx.ENG.memo.get('quotients', [])
            cl.append(('one_division', len(quots) == 1))
            if len(quots) != 1:
                return cl
            q, num, den = quots[0]
            F = SymReal(q)
            cl.append(('factor_is_default_bond_over_mean_bond_length',
                       band(symx.mkbool(num == symx._real_term(inp['bond'])), symx.mkbool(den == symx._real_term(mean)))))
            symx.ENG.assume(mean > 0)
            cl.append(('factor_positive', F > 0))
            for n in g.nodes:
                cl.append(('position_is_placement_times_common_factor',
                           band(*[gg.val_eq(ret[str(n)][c], placed[str(n)][c] * F) for c in range(2)])))
            cl.append(('lemmas_hold', all(v == 'unsat' for k, v in self._lemmas.items() if not k.startswith('_'))))
            return cl
        if not placed:
            # the code returned positions without consulting the placement: they must already be at the requested scale
            tot = 0.0
            for a, b in g.edges:
                pa, pb = ret[str(a)], ret[str(b)]
                tot += ((pa[0] - pb[0]) ** 2 + (pa[1] - pb[1]) ** 2) ** 0.5
            cl.append(('mean_bond_length_is_default_bond', gg.val_eq(inp['bond'], tot / g.number_of_edges())))
            return cl
        # concrete replay: mean bond length of the returned positions equals default_bond
        tot = 0.0
        for a, b in g.edges:
            pa, pb = ret[str(a)], ret[str(b)]
            tot += ((pa[0] - pb[0]) ** 2 + (pa[1] - pb[1]) ** 2) ** 0.5
        mean = tot / g.number_of_edges()
        cl.append(('mean_bond_length_is_default_bond', abs(mean - float(inp['bond'])) <= 1e-6 * max(1.0, float(inp['bond']))))
        cl.append(('finite', all(abs(x) < 1e300 for v in ret.values() for x in v)))
        return cl

    def sample(self, shape, cinp):
        return {'edges': shape['edges'], 'perm': shape['perm'], 'stride': shape['stride'], 'default_bond': str(cinp['bond']),
                'placed': {k: [str(x) for x in v] for k, v in (cinp.get('placed') or {}).items()}}

    MUTANTS = {
        'mean_over_nodes': {'graph_layout': ("    avg_dist = avg_dist / len(graph.edges)", "    avg_dist = avg_dist / len(graph.nodes)")},
        'first_edge_skipped': {'graph_layout': ("    for edge in graph.edges:\n        avg_dist += np.linalg.norm(pos[edge[0]]-pos[edge[1]])",
                                                "    for edge in list(graph.edges)[1:]:\n        avg_dist += np.linalg.norm(pos[edge[0]]-pos[edge[1]])")},
        'one_node_not_scaled': {'graph_layout': ("    for node in pos:\n        pos[node] *= default_bond / avg_dist",
                                                 "    for node in list(pos)[1:]:\n        pos[node] *= default_bond / avg_dist")},
    }


PROP = C19()
