"""C19 -- 2D layout gives every node a position at the requested scale (placement engines stubbed)."""
import itertools
import time

import networkx as nx
import numpy as np
import z3

from .. import core, gen_graph as gg, loader, symx
from ..symx import SymReal, band, bor, sym_real
from .c18 import SymVec


class SymRows(list):
    """stand-in for an (n, 2) numpy array gathered from position vectors: a list of row vectors (copies, as np.array
    copies) with the scalar arithmetic the layout code may apply to the whole array"""

    def _map(self, f):
        return SymRows([f(r) for r in self])

    def __mul__(self, k): return self._map(lambda r: r * k)
    __rmul__ = __mul__
    def __truediv__(self, k): return self._map(lambda r: r / k)
    def __add__(self, v): return self._map(lambda r: r + v)
    __radd__ = __add__
    def __sub__(self, v): return self._map(lambda r: r - v)

    def _inplace(self, rows):
        self[:] = list(rows)
        return self

    def __imul__(self, k): return self._inplace(self * k)
    def __itruediv__(self, k): return self._inplace(self / k)
    def __iadd__(self, v): return self._inplace(self + v)
    def __isub__(self, v): return self._inplace(self - v)

    def copy(self):
        return SymRows([r.copy() for r in self])


class Placement:
    """environment stub: the two networkx placement engines return an arbitrary finite position per node;
    np.linalg.norm(v) is a fresh L >= 0 with L^2 = v.v (exact reals)"""

    def __init__(self):
        self.reset()

    def reset(self):
        self.placements = []    # one arbitrary placement per call of a placement engine
        self.norms = []     # (vector components, L)
        self.angles = []    # fresh reals in [0, 180] returned by vector_angle_degrees
        self.rots = []      # fresh (c, s) used by rotate_degrees

    def angle(self):
        a = sym_real('angle%d' % len(self.angles))
        symx.ENG.add(a.e >= 0)
        symx.ENG.add(a.e <= 180)
        self.angles.append(a)
        return a

    def rotate(self, points, origin):
        """rotation about ``origin`` by an arbitrary angle: (c, s) fresh; c*c + s*s = 1 is used for the witness and in
        the isometry lemma only (the scale identity does not need it)"""
        if len(points) == 0:
            # numpy: an empty position array (shape (0,)) cannot be broadcast against the 2-vector origin
            raise ValueError('operands could not be broadcast together with shapes (0,) (2,)')
        c = sym_real('rot%dc' % len(self.rots))
        s_ = sym_real('rot%ds' % len(self.rots))
        self.rots.append((c, s_))
        out = []
        for p in points:
            dx, dy = p.xs[0] - origin.xs[0], p.xs[1] - origin.xs[1]
            out.append(SymVec([origin.xs[0] + c * dx - s_ * dy, origin.xs[1] + s_ * dx + c * dy]))
        return out

    def layout(self, graph):
        k = len(self.placements)
        placed = {n: SymVec([sym_real('pl%d_%s_x' % (k, n)), sym_real('pl%d_%s_y' % (k, n))]) for n in graph.nodes}
        self.placements.append(placed)
        return {n: SymVec(list(v.xs)) for n, v in placed.items()}

    def norm(self, v):
        L = sym_real('norm%d' % len(self.norms))
        dot = None
        for c in v.xs:
            dot = c * c if dot is None else dot + c * c
        # In the path condition L is only known to be >= 0: the scale identity decided per shape is polynomial in
        # the L_e.  The link L*L = v.v is used (i) in the homogeneity lemma and (ii) when a witness is drawn.
        symx.ENG.add(L.e >= 0)
        self.norms.append((list(v.xs), L, dot))
        return L


PLACE = Placement()


MALFORMED = 'malformed'


class C19(core.Prop):
    ID = 'C19'
    MODULES = loader.CORE + loader.LAYOUT
    FUNCTIONS = ['vespr_layout', 'check_and_fix_cis_trans', 'rotate_subgraph', '_angle']
    STUBS = ['nx.fruchterman_reingold_layout and nx.kamada_kawai_layout return an arbitrary finite position per node (assumed: the mean '
             'bond length of the placement is > 0)', 'np.linalg.norm(v): fresh L >= 0 with L*L = v.v over exact reals',
             'numpy 2-vectors replaced by exact-real vectors; division by a symbolic term eliminated by a fresh quotient q with q*d = n',
             'linalg_functions.vector_angle_degrees: an arbitrary angle in [0, 180] (arccos is transcendental); np.isclose(a, 120, atol=10) '
             'decided on that real; linalg_functions.rotate_degrees: rotation about the given origin by an arbitrary (cos, sin) pair '
             '(c*c + s*s = 1 only in the witness): both over-approximate the real kernels, so a violation is reported only if the '
             'unmodified kernels reproduce it on the concrete witness',
             'linalg_functions.rotate_to_axis (align_with option): an arbitrary rotation about the origin, over-approximated in the same way; '
             'in addition every path\'s witness is run through the unmodified angle / rotation / alignment kernels (one concrete point per path: '
             'this part is a validated sample, not a decision over all values)']
    ASSUMPTIONS = ['REDUCED claim: finiteness and non-coincidence of the positions produced by the placement engines (iterative floating-point '
                   'optimisation with its own RNG inside networkx/scipy) are the stub contract, not decided here',
                   'ez_isomer annotations as the resolver writes them: item (n1, n2, n3, n4, type) on n1 and the reversed item on n4',
                   'real arithmetic instead of floats',
                   'witness validation runs the unmodified cgsmiles.graph_layout with the same stubs on concrete rational positions whose '
                   'norms are computed in floating point (compared with tolerance 1e-6)']
    OUTSIDE = ['the placement itself (Fruchterman-Reingold / Kamada-Kawai numerics)', 'that rotated subgraphs do not land on other nodes',
               'graphs changed in place by the caller between two layout calls']
    BOUNDS = {
        'quick': 'all connected graphs with 2-4 nodes and chains/rings/stars with 5 nodes, each in 3 labelings (atlas keys, reversed '
                 'insertion order, non-contiguous keys); 3 graphs with a cis or trans annotated double bond (chain, substituted, in a ring) in '
                 '2 labelings; every fifth shape also with align_with in {(1,0),(0,1),(1,1)}, every sixth as a two-call history on one graph object; default_bond symbolic > 0',
        'thorough': 'all connected graphs with 2-5 nodes (all labelings <= 4 nodes, 6 for 5 nodes) and chains, rings, stars, fused rings '
                    'with 6-7 nodes; 6 annotated graphs (two double bonds, next to a ring, with hydrogens) x cis/trans x 3 labelings x 2 key sets',
    }
    LEVEL_TEXT = ('Bounded and REDUCED: with the placement engines replaced by arbitrary positions (and angle/rotation kernels by arbitrary '
                  'angles/rotations), z3 (QF_NRA) decides per graph, labeling and cis/trans branch that vespr_layout returns exactly one position '
                  'per node and that every returned bond vector equals one common factor f > 0 times the vector whose norm went into the mean, '
                  'with f * mean(norms requested for exactly the caller\'s edges) = default_bond; two lemmas discharged once per run (norm '
                  'homogeneity, mean of scaled lengths) turn that into "mean bond length = default_bond".')
    TECHNIQUE = ('symbolic execution of vespr_layout incl. cis/trans rotation against stubbed placement with symbolic positions, angles, '
                 'rotations and bond length; scale identity + NRA lemmas; z3')
    MAX_PATHS = 200

    def setup_shadow(self, SH):
        mod = SH.graph_layout
        real_np = np

        angle_f = SH.linalg_functions.vector_angle_degrees
        rot_f = SH.linalg_functions.rotate_degrees
        axis_f = SH.linalg_functions.rotate_to_axis

        def pred(f, a, kw):
            if f is real_np.array:
                return len(a) == 1 and isinstance(a[0], list) and a[0] and all(isinstance(x, SymVec) for x in a[0])
            if f is real_np.isclose:
                return symx.is_sym(a[0])
            return f in (nx.fruchterman_reingold_layout, nx.kamada_kawai_layout, real_np.linalg.norm, angle_f, rot_f, axis_f)

        def handler(f, a, kw):
            if f is real_np.linalg.norm:
                return PLACE.norm(a[0])
            if f is angle_f:
                return PLACE.angle()
            if f is axis_f:
                # align_with: a rotation of all positions about the origin by an angle that depends on the positions
                # (pdist / argmax / arctan2): over-approximated by an arbitrary rotation, like rotate_degrees
                return PLACE.rotate(list(a[0]), SymVec([0, 0]))
            if f is rot_f:
                return PLACE.rotate(list(a[0]), kw['origin'] if 'origin' in kw else a[2])
            if f is real_np.array:
                return SymRows([v.copy() for v in a[0]])
            if f is real_np.isclose:
                # |a - b| <= atol + rtol * |b| with numpy's default rtol = 1e-5 (b and atol are literals in the code)
                from fractions import Fraction
                b, atol = a[1], kw.get('atol', 1e-8)
                tol = Fraction(atol).limit_denominator(10 ** 9) + Fraction(1, 100000) * abs(Fraction(b))
                lo, hi = Fraction(b) - tol, Fraction(b) + tol
                return band(a[0] >= lo, a[0] <= hi)
            return PLACE.layout(a[0])
        symx.RT.call_hooks = [(pred, handler)]
        symx.RT.set_order_hook = None
        self._lemmas = self._prove_lemmas()

    # -- lemmas (once per worker; results are part of the evidence through extra_counts) ----------------------
    @staticmethod
    def _prove_lemmas():
        out = {}
        t0 = time.time()
        # homogeneity: L^2 = d.d, M^2 = (f d).(f d), L, M >= 0, f > 0  |-  M = f L
        dx, dy, f, L, M = z3.Reals('dx dy f L M')
        s = z3.Solver()
        s.set('timeout', 60000)
        s.add(L >= 0, M >= 0, f > 0, L * L == dx * dx + dy * dy, M * M == (f * dx) * (f * dx) + (f * dy) * (f * dy), M != f * L)
        out['norm_homogeneity'] = str(s.check())
        for ne in (1, 3, 6, 10):
            Ls = z3.Reals(' '.join('L%d' % i for i in range(ne)))
            Ms = z3.Reals(' '.join('M%d' % i for i in range(ne)))
            f, b = z3.Reals('f b')
            s = z3.Solver()
            s.set('timeout', 60000)
            s.add(*[Ms[i] == f * Ls[i] for i in range(ne)])
            s.add(f * (sum(Ls) / ne) == b)
            s.add(sum(Ms) / ne != b)
            out['mean_of_scaled_lengths_%d_edges' % ne] = str(s.check())
        out['_seconds'] = round(time.time() - t0, 3)
        return out

    def extra_counts(self):
        ok = all(v == 'unsat' for k, v in self._lemmas.items() if not k.startswith('_'))
        return {'lemmas_unsat(1=all)': 1 if ok else 0}

    def witness_constraints(self, shape, inp):
        """a witness has to be a real placement: nodes on a line at integer abscissae, norms tied to their vectors"""
        cs = []
        for k, placed in enumerate(PLACE.placements):
            for i, (n, v) in enumerate(sorted(placed.items(), key=lambda kv: str(kv[0]))):
                cs.append(symx._real_term(v.xs[0]) == 3 * i + 1 + k)
                cs.append(symx._real_term(v.xs[1]) == 0)
        for vec, L, dot in PLACE.norms:
            cs.append(L.e * L.e == symx._real_term(dot))
        # angles away from the tolerance boundary of np.isclose; rotations by a rational point of the unit circle
        for a in PLACE.angles:
            cs.append(z3.Or(a.e == 120, a.e == 60))
        for c, s_ in PLACE.rots:
            cs.append(symx._real_term(c) == z3.Q(3, 5))
            cs.append(symx._real_term(s_) == z3.Q(4, 5))
        return cs

    def shapes(self, tier):
        from networkx.generators.atlas import graph_atlas_g
        out = []
        q = tier == 'quick'
        nmax = 4 if q else 5
        graphs = [sorted(g.edges) for g in graph_atlas_g() if 2 <= len(g) <= nmax and nx.is_connected(g)]
        extra = [[(i, i + 1) for i in range(4)], [(i, (i + 1) % 5) for i in range(5)], [(0, i) for i in range(1, 5)]]
        if not q:
            extra = [[(i, i + 1) for i in range(5)], [(i, (i + 1) % 6) for i in range(6)], [(0, i) for i in range(1, 7)],
                     [(0, 1), (1, 2), (2, 3), (3, 4), (4, 5), (0, 5), (2, 6), (3, 6)],
                     [(0, 1), (1, 2), (2, 3), (3, 0), (2, 4), (4, 5), (5, 3)]]
        for edges in graphs + [sorted(e) for e in extra]:
            n = max(max(e) for e in edges) + 1
            perms = [list(range(n)), list(reversed(range(n)))]
            if not q and n <= 4:
                perms = [list(p) for p in itertools.permutations(range(n))]
            elif not q and n == 5:
                allp = list(itertools.permutations(range(n)))
                perms = [list(p) for p in allp[::len(allp) // 6][:6]]
            for p in perms:
                out.append({'edges': [list(e) for e in edges], 'n': n, 'perm': p, 'stride': 1})
            out.append({'edges': [list(e) for e in edges], 'n': n, 'perm': list(range(n)), 'stride': 5})
        # the align_with option (rotation of the finished layout onto an axis)
        for s_ in list(out)[::(5 if q else 4)]:
            out.append(dict(s_, align=[[1, 0], [0, 1], [1, 1]][len(out) % 3]))
        # history: the same graph object laid out twice with different bond lengths
        for s_ in list(out)[::(6 if q else 9)]:
            out.append(dict(s_, calls=2))
        # graphs with cis/trans annotations (check_and_fix_cis_trans rotates subgraphs): item (n1, n2, n3, n4, type) on n1 and the
        # reversed item on n4, as the resolver writes them
        ez_graphs = [
            ([(0, 1), (1, 2), (2, 3)], [(0, 1, 2, 3)]),                                   # F/C=C/F
            ([(0, 1), (1, 2), (2, 3), (1, 4), (2, 5)], [(0, 1, 2, 3)]),                   # with a substituent on either carbon
            ([(0, 1), (1, 2), (2, 3), (3, 4), (4, 5), (5, 0)], [(0, 1, 2, 3)]),           # the stereo bond inside a ring
        ]
        if not q:
            ez_graphs += [
                ([(0, 1), (1, 2), (2, 3), (3, 4), (4, 5)], [(0, 1, 2, 3), (2, 3, 4, 5)]),                 # two double bonds in a row
                ([(0, 1), (1, 2), (2, 3), (3, 4), (4, 5), (5, 0), (2, 6), (6, 7)], [(1, 2, 6, 7)]),       # stereo bond next to a ring
                ([(0, 1), (1, 2), (2, 3), (0, 4), (0, 5), (3, 6)], [(0, 1, 2, 3)]),                       # hydrogens on the ends
            ]
        for edges, items in ez_graphs:
            n = max(max(e) for e in edges) + 1
            for kinds in itertools.product(('cis', 'trans'), repeat=len(items)):
                for p in ([list(range(n)), list(reversed(range(n)))] + ([] if q else [list(range(1, n)) + [0]])):
                    for stride in ((1,) if q else (1, 5)):
                        out.append({'edges': [list(e) for e in edges], 'n': n, 'perm': p, 'stride': stride,
                                    'ez': [list(it) + [k] for it, k in zip(items, kinds)]})
        return out

    def build(self, shape):
        PLACE.reset()
        b = sym_real('default_bond')
        symx.ENG.add(b.e > 0)
        inp = {'bond': b, 'placed': None}
        if shape.get('calls', 1) == 2:
            # history: the same graph object laid out a second time with another bond length
            b2 = sym_real('default_bond_2nd_call')
            symx.ENG.add(b2.e > 0)
            inp['bond2'] = b2
        return inp

    @staticmethod
    def _graph(shape):
        g = nx.Graph()
        key = lambda i: 2 + shape['stride'] * i if shape['stride'] > 1 else i
        for i in shape['perm']:            # insertion order permuted
            g.add_node(key(i))
        for a, b in shape['edges']:
            g.add_edge(key(a), key(b))
        for n1, n2, n3, n4, kind in shape.get('ez', []):
            g.nodes[key(n1)].setdefault('ez_isomer', []).append((key(n1), key(n2), key(n3), key(n4), kind))
            g.nodes[key(n4)].setdefault('ez_isomer', []).append((key(n4), key(n3), key(n2), key(n1), kind))
        return g

    def execute(self, M, shape, inp):
        g = self._graph(shape)
        if getattr(M, 'is_shadow', False):
            def plain(res):
                return {str(n): (list(v.xs) if isinstance(v, SymVec) else [float(x) for x in v]) for n, v in res.items()}
            akw = {'align_with': list(shape['align'])} if shape.get('align') else {}
            r = core.guard(M.graph_layout.vespr_layout, g, default_bond=inp['bond'], **akw)
            if r[0] == 'ok':
                r = ('ok', plain(r[1]))     # a snapshot: later calls may not change what this call returned... and we look at it as returned
            self._marks = [(len(PLACE.norms), len(symx.ENG.memo.get('quotients', [])))]
            if r[0] == 'ok' and 'bond2' in inp:
                r2 = core.guard(M.graph_layout.vespr_layout, g, default_bond=inp['bond2'], **akw)
                self._marks.append((len(PLACE.norms), len(symx.ENG.memo.get('quotients', []))))
                r = ('ok', {'first': r[1], 'second': plain(r2[1])}) if r2[0] == 'ok' else r2
            inp['placed'] = [{str(n): list(v.xs) for n, v in placed.items()} for placed in PLACE.placements]
            inp['angles'] = list(PLACE.angles)
            inp['rots'] = [list(r_) for r_ in PLACE.rots]
            return r
        self._OR = M
        return self._real_run(M, shape, inp, stub_linalg=True)

    def _real_run(self, M, shape, inp, stub_linalg):
        """real code on a concrete rational placement.  With ``stub_linalg`` the angle and rotation kernels return the
        concretised stub values in call order (same environment as the symbolic run); without, only the placement
        engines are replaced."""
        g = self._graph(shape)
        placements = [{n: np.array([float(x) for x in pl_.get(str(n), [0.0, 0.0])]) for n in g.nodes} for pl_ in (inp['placed'] or [])]
        calls = {'p': 0}

        def place(graph, **kw):
            k = calls['p']
            calls['p'] += 1
            src = placements[k] if k < len(placements) else {n: np.array([3.0 * i + 1 + k, 0.0]) for i, n in enumerate(sorted(graph.nodes, key=str))}
            return {n: src[n].copy() for n in graph.nodes}
        o1, o2 = nx.fruchterman_reingold_layout, nx.kamada_kawai_layout
        nx.fruchterman_reingold_layout = place
        nx.kamada_kawai_layout = place
        U = M.graph_layout_utils
        GL = M.graph_layout
        o3, o4, o5 = U.vector_angle_degrees, U.rotate_degrees, GL.rotate_to_axis
        akw = {'align_with': np.array(shape['align'], dtype=float)} if shape.get('align') else {}
        if stub_linalg:
            angles = [float(a) for a in inp.get('angles') or []]
            rots = [(float(c), float(s_)) for c, s_ in inp.get('rots') or []]
            count = {'a': 0, 'r': 0}

            def angle_stub(v1, v2):
                count['a'] += 1
                if count['a'] > len(angles):
                    # the symbolic run never got here: nothing recorded to replay with (not a finding about the code)
                    raise symx.Unsupported('replay: no recorded angle for this call')
                return angles[count['a'] - 1]

            def rot_stub(position, angle, origin=np.array([0, 0])):
                if count['r'] >= len(rots):
                    raise symx.Unsupported('replay: no recorded rotation for this call')
                c, s_ = rots[count['r']]
                count['r'] += 1
                d = np.asarray(position) - origin
                return np.column_stack((c * d[:, 0] - s_ * d[:, 1], s_ * d[:, 0] + c * d[:, 1])) + origin

            def axis_stub(positions, align_with):
                return rot_stub(positions, None, origin=np.array([0.0, 0.0]))
            U.vector_angle_degrees, U.rotate_degrees, GL.rotate_to_axis = angle_stub, rot_stub, axis_stub

        def plain(res):
            out = {}
            for n, v in res.items():
                try:
                    xs = [float(x) for x in v]
                except TypeError:
                    xs = []
                out[str(n)] = xs if len(xs) == 2 else MALFORMED      # not a point in the plane
            return out
        try:
            r = core.guard(M.graph_layout.vespr_layout, g, default_bond=float(inp['bond']), **akw)
            if r[0] == 'ok':
                r = ('ok', plain(r[1]))
            if r[0] == 'ok' and 'bond2' in inp:
                r2 = core.guard(M.graph_layout.vespr_layout, g, default_bond=float(inp['bond2']), **akw)
                r = ('ok', {'first': r[1], 'second': plain(r2[1])}) if r2[0] == 'ok' else r2
        finally:
            nx.fruchterman_reingold_layout, nx.kamada_kawai_layout = o1, o2
            U.vector_angle_degrees, U.rotate_degrees, GL.rotate_to_axis = o3, o4, o5
        return r

    def _overapproximated(self, shape):
        return bool(shape.get('ez') or shape.get('align'))

    def witness_clauses(self, OR, shape, cinp):
        """the path's witness through the unmodified angle / rotation / alignment kernels (only the placement stubbed)"""
        if not self._overapproximated(shape):
            return []
        g = self._graph(shape)
        r = self._real_run(OR, shape, cinp, stub_linalg=False)
        if r[0] != 'ok':
            return [('no_exception_with_real_kernels', r[1] == 'ZeroDivisionError')]
        two = 'bond2' in cinp
        rets = [r[1]['first'], r[1]['second']] if two else [r[1]]
        bonds = [cinp['bond'], cinp['bond2']] if two else [cinp['bond']]
        out = []
        for ret, bond in zip(rets, bonds):
            if sorted(ret.keys()) != sorted(str(n) for n in g.nodes):
                return [('one_position_per_node', False)]
            if any(v == MALFORMED for v in ret.values()):
                return [('every_position_is_a_point_in_the_plane', False)]
            out += self._concrete_clauses(g, bond, ret)
        return out

    def oracle(self, shape, inp, obs):
        g = self._graph(shape)
        concrete = not symx.is_sym(inp['bond'])
        if (concrete and self._overapproximated(shape) and getattr(self, '_OR', None) is not None
                and not getattr(self, '_in_real', False)):
            # concrete replay of a shape whose angle / rotation / alignment kernels were over-approximated:
            # the unmodified kernels decide, whatever the stub run did
            self._in_real = True
            try:
                real = self.witness_clauses(self._OR, shape, inp)
            finally:
                self._in_real = False
            stub_failed = obs[0] != 'ok' and obs[1] != 'ZeroDivisionError'
            if all(c for _n, c in real) and stub_failed:
                raise symx.Unsupported('failure only under the over-approximated kernels / replay stubs; not shown by the real ones')
            return [('no_exception', True)] + real
        if obs[0] != 'ok':
            if obs[1] == 'ZeroDivisionError':
                raise symx.PathAbort()       # mean bond length 0: outside the stub contract
            return [('no_exception', False)]
        two = 'bond2' in inp
        rets = [obs[1]['first'], obs[1]['second']] if two else [obs[1]]
        bonds = [inp['bond'], inp['bond2']] if two else [inp['bond']]
        cl = [('no_exception', True)]
        for ret in rets:
            ok = sorted(ret.keys()) == sorted(str(n) for n in g.nodes)
            cl.append(('one_position_per_node', ok))
            if not ok:
                return cl
            ok = not any(v == MALFORMED for v in ret.values())
            cl.append(('every_position_is_a_point_in_the_plane', ok))
            if not ok:
                return cl
        symbolic = any(symx.is_sym(x) for ret in rets for v in ret.values() for x in v)
        if symbolic:
            marks = [(0, 0)] + list(self._marks)
            quots = symx.ENG.memo.get('quotients', [])
            edges = list(g.edges)
            for ci, (ret, bond) in enumerate(zip(rets, bonds)):
                tag = '' if ci == 0 else '_2nd_call'
                norms = PLACE.norms[marks[ci][0]:marks[ci + 1][0]]
                qs = quots[marks[ci][1]:marks[ci + 1][1]]
                # the norms requested by the code are those of exactly the graph's edges (the graph as the caller passed it)
                ok = len(norms) == len(edges)
                cl.append(('norms_requested_for_exactly_the_edges' + tag, ok))
                if not ok:
                    return cl
                total = None
                for _vec, L, _dot in norms:
                    total = L if total is None else total + L
                mean = SymReal.mk(symx._real_term(total) / len(edges))
                # the common factor is the quotient the code itself formed: default_bond / mean(requested norms)
                cl.append(('one_division' + tag, len(qs) == 1))
                if len(qs) != 1:
                    return cl
                q, num, den = qs[0]
                F = SymReal(q)
                cl.append(('factor_is_default_bond_over_mean_bond_length' + tag,
                           band(symx.mkbool(num == symx._real_term(bond)), symx.mkbool(den == symx._real_term(mean)))))
                symx.ENG.assume(mean > 0)
                cl.append(('factor_positive' + tag, F > 0))
                # every returned bond vector is the common factor times the vector whose norm went into the mean (either direction)
                for (a, b), (vec, _L, _dot) in zip(edges, norms):
                    ra, rb = ret[str(a)], ret[str(b)]
                    fwd = band(*[gg.val_eq(ra[c] - rb[c], vec[c] * F) for c in range(2)])
                    bwd = band(*[gg.val_eq(rb[c] - ra[c], vec[c] * F) for c in range(2)])
                    cl.append(('returned_bond_vector_is_factor_times_averaged_vector' + tag, bor(fwd, bwd)))
            cl.append(('lemmas_hold', all(v == 'unsat' for k, v in self._lemmas.items() if not k.startswith('_'))))
            return cl
        if not inp['placed'] and symx.is_sym(inp['bond']):
            # the code returned positions without consulting the placement: they must already be at the requested scale
            for ret, bond in zip(rets, bonds):
                tot = 0.0
                for a, b in g.edges:
                    pa, pb = ret[str(a)], ret[str(b)]
                    tot += ((pa[0] - pb[0]) ** 2 + (pa[1] - pb[1]) ** 2) ** 0.5
                cl.append(('mean_bond_length_is_default_bond', gg.val_eq(bond, tot / g.number_of_edges())))
            return cl
        # concrete replay: mean bond length of the returned positions over the caller's edges equals default_bond
        bad = []
        for ret, bond in zip(rets, bonds):
            bad += self._concrete_clauses(g, bond, ret)
        if self._overapproximated(shape) and getattr(self, '_OR', None) is not None and not getattr(self, '_in_real', False):
            # the angle / rotation / alignment kernels were over-approximated: the unmodified kernels decide
            self._in_real = True
            try:
                bad2 = self.witness_clauses(self._OR, shape, inp)
            finally:
                self._in_real = False
            if all(c for _n, c in bad2) and not all(c for _n, c in bad):
                raise symx.Unsupported('violation only under the over-approximated angle/rotation kernels; not shown by the real ones')
            return cl + bad2
        return cl + bad

    @staticmethod
    def _concrete_clauses(g, bond, ret):
        tot = 0.0
        for a, b in g.edges:
            pa, pb = ret[str(a)], ret[str(b)]
            tot += ((pa[0] - pb[0]) ** 2 + (pa[1] - pb[1]) ** 2) ** 0.5
        mean = tot / g.number_of_edges()
        return [('mean_bond_length_is_default_bond', bool(abs(mean - float(bond)) <= 1e-6 * max(1.0, float(bond)))),
                ('finite', all(abs(x) < 1e300 for v in ret.values() for x in v))]

    def sample(self, shape, cinp):
        return {'edges': shape['edges'], 'perm': shape['perm'], 'stride': shape['stride'], 'ez': shape.get('ez'), 'default_bond': str(cinp['bond']),
                'default_bond_2nd_call': str(cinp['bond2']) if 'bond2' in cinp else None,
                'placements': [{k: [str(x) for x in v] for k, v in pl_.items()} for pl_ in (cinp.get('placed') or [])][-1:]}

    MUTANTS = {
        'rotation_cuts_the_callers_graph': {'graph_layout_utils': ("    graph_copy = nx.subgraph(graph, graph.nodes).copy()\n", "    graph_copy = graph\n")},
        'mean_over_nodes': {'graph_layout': ("    avg_dist = avg_dist / len(graph.edges)", "    avg_dist = avg_dist / len(graph.nodes)")},
        'first_edge_skipped': {'graph_layout': ("    for edge in graph.edges:\n        avg_dist += np.linalg.norm(pos[edge[0]]-pos[edge[1]])",
                                                "    for edge in list(graph.edges)[1:]:\n        avg_dist += np.linalg.norm(pos[edge[0]]-pos[edge[1]])")},
        'one_node_not_scaled': {'graph_layout': ("    for node in pos:\n        pos[node] *= default_bond / avg_dist",
                                                 "    for node in list(pos)[1:]:\n        pos[node] *= default_bond / avg_dist")},
    }


PROP = C19()
