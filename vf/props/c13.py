"""C13 -- bonding descriptors are separated from fragment text exactly."""
import itertools

from .. import core, gen_mol as gm, symx
from ..symx import SymStr, band, cat, sym_alnum, sym_char

ORD = {'-': '1', '=': '2', '#': '3', '$': '4', '.': '0', ':': '1.5'}

SKELETONS_Q = ['C', 'CO', 'CCC', 'C(C)C', 'C1CC1', 'CCl', 'BrCC', '[CH2]O[CH2]', 'C[O-]', '[NH3+]C',
               'C=C', 'CC(=O)O', 'C1CCC1C', '[#TC4][#OT1][#CD1]', '[#A]1[#B][#C]1', '[#A]([#B])[#C]',
               'C%10CC%10', 'F/C=C/F', 'CC(/F)=C(\\F)C', 'c1ccccc1', 'C1=CC1', 'N1CC1=O',
               # aliphatic atom directly followed by an aromatic one (two letters that spell an element), sibling branches,
               # ring bonds written with a bond symbol at the opening / closing digit, slash after a closed branch
               'Cn1cccc1', 'Sc1ccccc1', 'Cs1cccc1', 'CC(C)(CO)', 'C(C)(C)(C)', 'C=1CC1', 'C1CCC=1', 'C=1CCCC=1', 'CC(C)/C=C/F',
               '[#A]=1[#B][#C]1', '[#A]([#B])([#C])',
               # S before an aromatic n; two %nn ring ids directly after each other on one atom
               'CSn1cccc1', 'C%10CCCC%10%11CCCC%11',
               # a bond symbol in front of a two-digit ring marker (opening / closing)
               'C=%10CC%10', 'C%10CC=%10']
SKELETONS_T = SKELETONS_Q + ['CC(C)(C)C', 'C1CC2CC12', 'OC(=O)c1ccccc1', 'C(C(C)C)C', 'ClC(Br)F', 'C#CC',
                             'C%11CC%12CC%11%12', '[#A]=[#B]', '[#A]1[#B]2[#C]1[#D]2', 'C(=O)([O-])C',
                             '[NH2+]=C(N)N', 'S(=O)(=O)(C)C', 'P(C)(C)C', 'C/C=C\\C', 'Cc1ccc(C)cc1',
                             '[#A]([#B]([#C]))[#D]', 'C1CC1C1CC1']
ANN_FORMS = {
    'w_pos': [';', 'N'],            # weight positionally
    'w_kw': [';w=', 'N'],
    'x_kw': [';x=', 'X'],
    'wx_pos': [';', 'N', ';', 'X'],
    'free': [';q=', 'V', ';p=', 'V'],
    'free_uc': [';Tg=', 'V', ';pKa=', 'V'],      # user-defined symbols are case sensitive and reported as written
    'free_case': [';a=', 'V', ';A=', 'V'],
}


RAW_ALPHABET = 'C[]$()=1'


def raw_reference(text):
    """Spec-side reading of a *concrete* raw string over RAW_ALPHABET.  Returns None when the string is not a fragment
    text of the claim (not a valid SMILES with descriptors inserted after atoms / leading), else (clean text,
    {atom: [descriptor strings]}).  Rules (docs/source/syntax/fragments.rst): a descriptor is '[$label]'; a leading
    descriptor may be followed by its order symbol, any other descriptor may be preceded by it; a descriptor refers to
    the atom it is written after (after that atom's ring digits, after further descriptors, or after a closed branch of
    that atom); an order symbol in front of a ring digit or an atom is an ordinary bond symbol."""
    n = len(text)
    i = 0
    clean = ''
    desc = {}
    natoms = 0
    prev = None
    stack = []

    def read_desc(j):
        # text[j] == '[' and text[j+1] == '$'
        k = text.find(']', j)
        if k < 0:
            return None
        label = text[j + 2:k]
        if any(c not in 'C1' for c in label):
            return None
        return label, k + 1
    # leading descriptors
    while i + 1 < n and text[i] == '[' and text[i + 1] == '$':
        r = read_desc(i)
        if r is None:
            return None
        label, i = r
        order = '1'
        if i < n and text[i] == '=':
            order = '2'
            i += 1
        desc.setdefault(0, []).append('$' + label + order)
    if i >= n:
        return None
    last = 'start'          # kind of the previous structural token
    while i < n:
        c = text[i]
        if c == 'C':
            prev = natoms
            natoms += 1
            clean += 'C'
            last = 'atom'
            i += 1
        elif c == '[':
            if i + 1 < n and text[i + 1] == '$':
                if prev is None or last in ('open', 'bond', 'start'):
                    return None
                r = read_desc(i)
                if r is None:
                    return None
                label, i = r
                desc.setdefault(prev, []).append('$' + label + '1')
                last = 'desc'
            elif text[i:i + 3] == '[C]':
                prev = natoms
                natoms += 1
                clean += '[C]'
                last = 'atom'
                i += 3
            else:
                return None
        elif c == '=':
            if i + 2 < n and text[i + 1] == '[' and text[i + 2] == '$':
                # order symbol of the following descriptor
                if prev is None or last in ('open', 'bond', 'start'):
                    return None
                r = read_desc(i + 1)
                if r is None:
                    return None
                label, i = r
                desc.setdefault(prev, []).append('$' + label + '2')
                last = 'desc'
            else:
                if last in ('open', 'bond', 'start') and not (last == 'open'):
                    return None
                clean += '='
                last = 'bond'
                i += 1
        elif c == '(':
            if prev is None or last in ('open', 'bond', 'start'):
                return None
            stack.append(prev)
            clean += '('
            last = 'open'
            i += 1
        elif c == ')':
            if not stack or last in ('open', 'bond'):
                return None
            prev = stack.pop()
            clean += ')'
            last = 'close'
            i += 1
        elif c == '1':
            if prev is None or last in ('open', 'start', 'close', 'desc'):
                return None          # ring digits directly follow their atom (or its ring bond symbol)
            clean += '1'
            last = 'ring'
            i += 1
        else:
            return None
    if stack or last in ('bond', 'open'):
        return None
    try:
        import pysmiles
        import logging
        mol = pysmiles.read_smiles(clean, explicit_hydrogen=False, reinterpret_aromatic=False, strict=False)
        if len(mol) != natoms:
            return None
    except Exception:
        return None
    return clean, desc


def insertion_points(toks):
    """('lead',) ; ('atom', k) directly after atom k ; ('ring', k) after the last ring digit of atom k"""
    pts = [('lead', 0)]
    for i, t in enumerate(toks):
        if t.kind == 'atom':
            pts.append(('atom', t.atom))
            j = i + 1
            has_ring = False
            while j < len(toks) and toks[j].kind in ('ring', 'bond'):
                if toks[j].kind == 'ring':
                    has_ring = True
                    last_ring = j
                elif not (j + 1 < len(toks) and toks[j + 1].kind == 'ring'):
                    break
                j += 1
            if has_ring:
                pts.append(('ring', t.atom))
        elif t.kind == 'close':
            # after a closed branch the text is back at the branch atom (SMILES reading)
            pts.append(('close', t.atom, i))
    return pts


class C13(core.Prop):
    ID = 'C13'
    FUNCTIONS = ['strip_bonding_descriptors', 'collect_ring_number', '__next__', 'peek',
                 '_parse_dialect_string', 'check_and_cast_types']
    STUBS = ['inspect.Signature.bind: native']
    ASSUMPTIONS = ['descriptor labels are 0-2 characters (4 on the first four skeletons) over [0-9A-Za-z]; kinds $ < > !',
                   'a descriptor is inserted directly after an atom, after that atom\'s ring digits, after a closed branch of that atom, or leads the text; '
                   'a non-leading descriptor carries its order symbol in front, a leading one behind (docs: fragments.rst, Valency)',
                   'numeric annotation values have the spelling d.d; free values are 2 alnum characters']
    OUTSIDE = ['descriptors written inside their own parentheses', 'raw strings longer than the bound or over a larger alphabet']
    BOUNDS = {
        'quick': 'raw strings of length <= 4 over C [ ] $ ( ) = 1 against a spec-side reference reader; %d skeletons (<= 6 atoms: chains, branches, rings incl. %%nn, Cl/Br, bracket and coarse atoms, slashes) x every '
                 'single insertion point x 1-2 descriptors (label length 0-2, with/without order symbol) + annotation forms on bracket atoms' % len(SKELETONS_Q),
        'thorough': 'raw strings of length <= 6; %d skeletons (<= 8 atoms) x every single insertion point x 1-3 descriptors + every pair of insertion points + annotations' % len(SKELETONS_T),
    }
    LEVEL_TEXT = ('Bounded: per skeleton and insertion pattern z3 decides on every path of the real strip_bonding_descriptors source '
                  'that clean text, descriptor lists per atom (kind, label, order), slash marks and annotations equal the constructed '
                  'expectation, for all kinds, labels, order symbols and annotation values at once.')
    TECHNIQUE = 'symbolic execution of strip_bonding_descriptors over skeleton x symbolic descriptor/annotation holes, oracle by construction, z3'

    def shapes(self, tier):
        out = []
        skels = SKELETONS_Q if tier == 'quick' else SKELETONS_T
        maxd = 2 if tier == 'quick' else 3
        for sk in skels:
            toks = gm.tokenize(sk)
            pts = insertion_points(toks)
            for p in pts:
                for nd in range(1, maxd + 1):
                    for lab in ((0, 1) if tier == 'quick' else (0, 1, 2)):
                        for osym in ('n', 's'):
                            out.append({'skel': sk, 'ins': [[list(p), [[lab, osym]] * nd]], 'ann': {}})
                if sk in skels[:4]:
                    out.append({'skel': sk, 'ins': [[list(p), [[4, 's']]]], 'ann': {}})       # a long label
                if maxd >= 2:
                    out.append({'skel': sk, 'ins': [[list(p), [[1, 's'], [0, 'n']]]], 'ann': {}})
                    out.append({'skel': sk, 'ins': [[list(p), [[0, 'n'], [1, 's']]]], 'ann': {}})
            if tier == 'thorough':
                for p1, p2 in itertools.combinations(pts, 2):
                    out.append({'skel': sk, 'ins': [[list(p1), [[1, 's']]], [list(p2), [[0, 'n'], [2, 's']]]], 'ann': {}})
            else:
                for p1, p2 in list(itertools.combinations(pts, 2))[:3]:
                    out.append({'skel': sk, 'ins': [[list(p1), [[1, 's']]], [list(p2), [[0, 'n']]]], 'ann': {}})
            brack = [t.atom for t in toks if t.kind == 'atom' and t.text.startswith('[')]
            for a in brack:
                for form in ANN_FORMS:
                    out.append({'skel': sk, 'ins': [[['atom', a], [[1, 's']]]], 'ann': {str(a): form}})
        # the same annotation form on two bracket atoms (identically spelled annotations: caches, shared defaults)
        for sk in ('[CH2]O[CH2]', '[#TC4][#OT1][#CD1]'):
            for form in ANN_FORMS:
                out.append({'skel': sk, 'ins': [[['atom', 0], [[1, 's']]]], 'ann': {'0': form, '2': form}})
        out.append({'skel': 'CCO', 'ins': [], 'ann': {}})
        # the aromatic bond symbol as a descriptor's order symbol (reported as order 1.5)
        for sk in ('cc', 'c1ccccc1', 'Cn1cccc1', 'C(c)c') if tier == 'quick' else ('cc', 'c1ccccc1', 'Cn1cccc1', 'C(c)c', 'Cc1ccc(C)cc1', '[nH]1cccc1'):
            for p in insertion_points(gm.tokenize(sk)):
                out.append({'skel': sk, 'ins': [[list(p), [[1, 'a']]]], 'ann': {}})
                out.append({'skel': sk, 'ins': [[list(p), [[1, 'a'], [0, 'n']]]], 'ann': {}})
                out.append({'skel': sk, 'ins': [[list(p), [[0, 's'], [1, 'a']]]], 'ann': {}})
        # raw strings (no skeleton): every string of length <= L over RAW_ALPHABET, split by the first two characters
        L = 4 if tier == 'quick' else 6
        for n in range(1, L + 1):
            if n == 1:
                out.append({'mode': 'raw', 'len': 1, 'head': ''})
            else:
                for a in RAW_ALPHABET:
                    for b in RAW_ALPHABET:
                        if n >= 6:
                            for c in RAW_ALPHABET:
                                out.append({'mode': 'raw', 'len': n, 'head': a + b + c})
                        else:
                            out.append({'mode': 'raw', 'len': n, 'head': a + b})
        return out

    # -- build the text and the expectation together ---------------------
    ALLOW_VACUOUS = True     # raw mode: a head may admit no string of the claim's grammar

    def build(self, shape):
        if shape.get('mode') == 'raw':
            head = shape['head']
            rest = [sym_char('r%d' % k, allowed=RAW_ALPHABET) for k in range(shape['len'] - len(head))]
            return {'text': cat(head, rest)}
        holes = {'desc': {}, 'ann': {}}
        for ii, (pt, descs) in enumerate(shape['ins']):
            hs = []
            for di, (lab, osym) in enumerate(descs):
                tag = "i%dd%d" % (ii, di)
                kind = SymStr([sym_char(tag + 'k', allowed='$<>!')])
                label = SymStr.mk([sym_alnum("%sl%d" % (tag, k)) for k in range(lab)])
                osy = SymStr([sym_char(tag + 'o', allowed='-=#$.')]) if osym == 's' else (SymStr.lift(':') if osym == 'a' else None)
                hs.append({'kind': kind, 'label': label, 'osym': osy})
            holes['desc'][str(ii)] = hs
        for a, form in shape['ann'].items():
            vals = []
            for k, piece in enumerate(ANN_FORMS[form]):
                if piece == 'N':
                    vals.append(cat(sym_char("a%s_%d_i" % (a, k), lo=48, hi=57), '.', sym_char("a%s_%d_f" % (a, k), lo=48, hi=57)))
                elif piece == 'X':
                    vals.append(SymStr([sym_char("a%s_%d_x" % (a, k), allowed='RS')]))
                elif piece == 'V':
                    vals.append(SymStr.mk([sym_alnum("a%s_%d_v%d" % (a, k, j)) for j in range(2)]))
                else:
                    vals.append(None)
            holes['ann'][a] = vals
        return {'text': self.render(shape, holes), 'holes': holes}

    @staticmethod
    def render(shape, holes):
        toks = gm.tokenize(shape['skel'])
        ins = {}
        for ii, (pt, descs) in enumerate(shape['ins']):
            ins.setdefault(tuple(pt), []).append(ii)

        def desc_text(ii, leading):
            parts = []
            for h in holes['desc'][str(ii)]:
                d = cat('[', h['kind'], h['label'], ']')
                if h['osym'] is None:
                    parts.append(d)
                elif leading:
                    parts.append(cat(d, h['osym']))
                else:
                    parts.append(cat(h['osym'], d))
            return cat(*parts) if parts else ''
        out = []
        for ii in ins.get(('lead', 0), []):
            out.append(desc_text(ii, True))
        i = 0
        while i < len(toks):
            t = toks[i]
            if t.kind == 'atom':
                form = shape['ann'].get(str(t.atom))
                if form:
                    vals = holes['ann'][str(t.atom)]
                    ann = cat(*[(p if v is None else v) for p, v in zip(ANN_FORMS[form], vals)])
                    out.append(cat(t.text[:-1], ann, ']'))
                else:
                    out.append(t.text)
                for ii in ins.get(('atom', t.atom), []):
                    out.append(desc_text(ii, False))
                # ring digits (with their bond symbols) of this atom
                j = i + 1
                last_ring = None
                while j < len(toks) and toks[j].kind in ('ring', 'bond'):
                    if toks[j].kind == 'ring':
                        last_ring = j
                    elif not (j + 1 < len(toks) and toks[j + 1].kind == 'ring'):
                        break
                    j += 1
                if last_ring is not None:
                    for k in range(i + 1, last_ring + 1):
                        out.append(toks[k].text)
                    for ii in ins.get(('ring', t.atom), []):
                        out.append(desc_text(ii, False))
                    i = last_ring + 1
                    continue
            else:
                out.append(t.text)
                if t.kind == 'close':
                    for ii in ins.get(('close', t.atom, i), []):
                        out.append(desc_text(ii, False))
            i += 1
        return cat(*out)

    def execute(self, M, shape, inp):
        r = core.guard(M.read_fragments.strip_bonding_descriptors, inp['text'])
        if r[0] == 'ok':
            smile, bonding, ez, attrs = r[1]
            return ('ok', [smile, {k: list(v) for k, v in bonding.items() if v}, dict(ez),
                           {k: dict(v) for k, v in attrs.items()}])
        return r

    def oracle(self, shape, inp, obs):
        if shape.get('mode') == 'raw':
            text = symx.concretize_str(inp['text'])       # the oracle decides per concrete string (forks over the characters)
            ref = raw_reference(text)
            if ref is None:
                raise symx.PathAbort()                    # not a fragment text of the claim
            if obs[0] != 'ok':
                return [('accepted', False)]
            smile, bonding, ez, attrs = obs[1]
            clean, desc = ref
            cl = [('accepted', True), ('clean_text', smile == clean)]
            got = {k: sorted(v) for k, v in bonding.items() if v}
            cl.append(('descriptors', got == {k: sorted(v) for k, v in desc.items()}))
            return cl
        if obs[0] != 'ok':
            return [('accepted', False)]
        smile, bonding, ez, attrs = obs[1]
        toks = gm.tokenize(shape['skel'])
        holes = inp['holes']
        # clean text: skeleton without slashes; bracket atoms without annotation
        clean = ''.join(t.text for t in toks if t.kind != 'slash')
        cl = [('accepted', True), ('clean_text', smile == clean)]
        # descriptors per atom in order of appearance
        exp = {}
        order_of_ins = sorted(range(len(shape['ins'])), key=lambda ii: self._pos_key(shape['ins'][ii][0]))
        for ii in order_of_ins:
            pt = shape['ins'][ii][0]
            atom = 0 if pt[0] == 'lead' else pt[1]
            for h in holes['desc'][str(ii)]:
                o = h['osym']
                if o is None:
                    digit = '1'
                else:
                    ch = SymStr.lift(o)._chs[0]
                    if isinstance(ch, str):
                        digit = ORD[ch]
                    else:
                        import z3
                        e = z3.IntVal(ord('?'))
                        for s, v in ORD.items():
                            if len(v) == 1:      # (':' is only ever written concretely)
                                e = z3.If(ch == ord(s), ord(v), e)
                        digit = SymStr([z3.simplify(e)])
                exp.setdefault(atom, []).append(cat(h['kind'], h['label'], digit))
        cl.append(('descriptor_atoms', sorted(bonding.keys()) == sorted(exp.keys())))
        if sorted(bonding.keys()) == sorted(exp.keys()):
            for a in exp:
                same_len = len(bonding[a]) == len(exp[a])
                cl.append(('descriptor_count', same_len))
                if same_len:
                    # same descriptors on the atom (multiset: the property does not fix the order inside the list)
                    import itertools
                    from ..symx import bor
                    cl.append(('descriptor_values', bor(*[band(*[g == exp[a][i] for g, i in zip(bonding[a], p)])
                                                          for p in itertools.permutations(range(len(exp[a])))])))
        # slash marks: a mark between the previous atom p and the next atom n is stored on both
        exp_ez = {}
        natoms = 0
        for t in toks:
            if t.kind == 'atom':
                natoms += 1
            elif t.kind == 'slash':
                exp_ez[natoms] = t.text
                exp_ez[t.atom if t.atom is not None else 0] = t.text
        cl.append(('slash_marks', ez == exp_ez))
        # annotations: every bracket atom gets the fragment dialect's defaults
        exp_attr = {}
        for t in toks:
            if t.kind == 'atom' and t.text.startswith('['):
                d = {'weight': 1.0}
                form = shape['ann'].get(str(t.atom))
                if form:
                    vals = holes['ann'][str(t.atom)]
                    pieces = ANN_FORMS[form]
                    if form in ('w_pos', 'w_kw'):
                        d['weight'] = self._num(vals[1])
                    elif form == 'x_kw':
                        d['chiral'] = vals[1]
                    elif form == 'wx_pos':
                        d['weight'] = self._num(vals[1])
                        d['chiral'] = vals[3]
                    elif form.startswith('free'):
                        d[pieces[0][1:-1]] = vals[1]
                        d[pieces[2][1:-1]] = vals[3]
                exp_attr[t.atom] = d
        cl.append(('annotation_atoms', sorted(attrs.keys()) == sorted(exp_attr.keys())))
        if sorted(attrs.keys()) == sorted(exp_attr.keys()):
            for a, d in exp_attr.items():
                ok_keys = sorted(attrs[a].keys()) == sorted(d.keys())
                cl.append(('annotation_keys', ok_keys))
                if ok_keys:
                    from ..gen_graph import val_eq
                    cl.append(('annotation_values', band(*[val_eq(attrs[a][k], v) for k, v in d.items()])))
        return cl

    @staticmethod
    def _num(s):
        from ..gen_graph import number_value
        return number_value(s, 'd.d')

    @staticmethod
    def _pos_key(pt):
        if pt[0] == 'lead':
            return (-1, 0, 0)
        if pt[0] == 'close':
            return (pt[1], 2, pt[2])
        return (pt[1], 0 if pt[0] == 'atom' else 1, 0)

    def sample(self, shape, cinp):
        return cinp['text']

    MUTANTS = {
        'order_not_reset': {'read_fragments': (
            "                    order = current_order\n                    current_order = None\n",
            "                    order = current_order\n")},
        'ring_descriptor_next_atom': {'read_fragments': (
            "                bonding_descrpt[prev_node].append(bond_descrp + str(order))",
            "                bonding_descrpt[prev_node if not smile[-1:].isdigit() else node_count].append(bond_descrp + str(order))")},
        'paren_anchor_lost': {'read_fragments': (
            "        elif token == ')':\n            prev_node = anchor.pop()\n",
            "        elif token == ')':\n            anchor.pop()\n")},
    }


PROP = C13()

# shape families added after the first complete pass; appended to the bounds written into the evidence
BOUNDS_ADDED = "; plus: a bond symbol in front of a %nn ring marker; the aromatic symbol ':' as a descriptor's order symbol (order 1.5) on aromatic skeletonsa bond symbol in front of a %nn ring marker; the aromatic symbol ':' as a descriptor's order symbol (order 1.5) on aromatic skeletons"
PROP.BOUNDS = {k: v + BOUNDS_ADDED for k, v in PROP.BOUNDS.items()}
