"""C17 -- the sampler honours target weight, reactivities, terminals and seed."""
import re

import z3

from .. import core, gen_graph as gg, gen_mol as gm, loader, pipeline as pl, symx
from ..symx import SymReal, band, bor
from .c02 import strip_desc
from .c12 import deep_eq
from .c16 import CONFIGS, QUICK, LEGIT_STOPS, STREAM, SamplerProp, with_order


def spec_mass(text):
    """sum of atomic masses of a fragment as written (descriptors ignored), implicit hydrogens included"""
    import pysmiles
    mol = gm.parse_smiles(strip_desc(text))
    eh = gm.expected_h(mol)
    m = 0.0
    for a, h in zip(mol.atoms, eh):
        m += pysmiles.PTE[a['element']]['AtomicMass']
        # CGsmiles completes the valence of every atom, bracket atoms included (C09): the hydrogen count written in
        # a bracket atom is not taken literally - except on an aromatic atom ([nH]), where the written hydrogen decides
        # which Kekule form exists and valence arithmetic alone cannot know it
        nh = a['hcount'] if (a.get('aromatic') and a.get('bracket') and a.get('hcount')) else (h[0] if h is not None else 0)
        m += nh * pysmiles.PTE['H']['AtomicMass']
    return m


# the seed of the two-run history: 0, the one int a truthiness test confuses with 'no seed given' (seeded change C17-A10);
# the stream R(seed, k, n) is uninterpreted, so no other concrete value adds a case
SEED = 0

class C17(SamplerProp):
    ID = 'C17'
    FUNCTIONS = ['__init__', 'add_fragment', 'sample', '_select_bonding_operator', '_set_bond_order_defaults',
                 'find_complementary_bonding_descriptor', 'find_open_bonds', 'compute_mass', 'from_fragment_string', 'merge_graphs']
    ASSUMPTIONS = ['RNG stream R(seed, k, n), target weight and supplied masses symbolic as in C16; one path runs TWO histories with the same '
                   'seed (the concrete int 0 - the value a truthiness test confuses with no seed; R is uninterpreted in the seed): (1) construct-and-sample in a fresh process, (2) module state reset (= another fresh process), unrelated decoy samplers '
                   'first (same names / other bodies; same fragments listed in the other order, growing one fragment with pinned draws), then the '
                   'same construct-and-sample; the two runs also have independent set-iteration orders (two hash seeds); the stream returns the '
                   'same value for the same (seed, k, n)',
                   'growth bounded by KMAX added fragments (cut paths counted)',
                   'the order in which fragments were added is read from the fragment ids (0 = start fragment, not counted in the weight)']
    OUTSIDE = ['seed=None (clock)', 'other processes', 'float rounding of mass sums (targets of all-atom configurations lie on a 1/8 grid)']
    BOUNDS = {'quick': 'configurations %s, <= 3 added fragments, two-run history' % QUICK,
              'thorough': 'configurations %s, <= 4 added fragments, two-run history' % sorted(CONFIGS)}
    LEVEL_TEXT = ('Bounded: for every RNG outcome sequence, target weight and supplied mass within the step bound z3 decides on the real sampler '
                  'that the added mass reaches the target and is below it without the last fragment, that zero-reactivity sites and partners '
                  'never bond, that terminal bookkeeping holds, that element-derived masses equal the spec sum, and that two construct-and-sample '
                  'runs with the same seed return equal graphs.')
    TECHNIQUE = 'symbolic execution of two-run sampler histories with RNG stream R(seed,k,n), target and masses symbolic; arithmetic + equality-of-runs oracle; z3'

    _mode = {}
    _run_index = [0]
    _xproc = {}      # (configuration, program) -> outcome of the multi-process replay (the same for every counterexample of it)

    def setup_shadow(self, SH):
        SamplerProp.setup_shadow(self, SH)
        self._mode = {}
        self._run_index = [0]

        def hook(items):
            # model of hash-seed dependent set iteration (as in C12): each of the two construct-and-sample runs stands for
            # one interpreter process with its own solver-chosen order (insertion / reversed / rotated by one)
            if len(items) <= 1 or all(isinstance(i, int) and not isinstance(i, bool) for i in items):
                return items
            key = self._run_index[0]
            if key not in self._mode:
                self._mode[key] = int(symx.sym_int('set_order_mode_run%d' % key, 0, 2))
            m = self._mode[key]
            if m == 1:
                return list(reversed(items))
            if m == 2:
                return items[1:] + items[:1]
            return items
        symx.RT.set_order_hook = hook

    def skip_validation(self, shape, inp):
        # a path on which the set-order model was exercised describes two interpreter processes at once
        return bool(self._mode)

    def replay_extra(self, shape, cinp, clause=None):
        """concrete replay only: construct-and-sample with the same seed in separate interpreter processes under different
        hash seeds, with the real random module"""
        if clause != 'same_seed_same_molecule':
            return []
        import subprocess
        import sys as _sys
        from .. import loader
        cfg = CONFIGS[shape['cfg']]
        kw = dict(cfg['kw'])
        if cinp.get('masses'):
            kw['fragment_masses'] = {k: float(v) for k, v in cinp['masses'].items()}
        prog = ("import json,sys\nsys.path.insert(0, %r)\nimport os\nos.environ.setdefault('PBR_VERSION','0.0.0')\n"
                "from cgsmiles.sample import MoleculeSampler\n"
                "out = []\n"
                "for seed in (0, 7, 11, 2024):\n"
                "    s = MoleculeSampler.from_fragment_string(%r, all_atom=%r, seed=seed, **%r)\n"
                "    mol = s.sample(%r)\n"
                "    out.append([sorted((n, sorted((k, repr(v)) for k, v in d.items() if k != 'graph')) for n, d in mol.nodes(data=True)),"
                " sorted((min(a,b), max(a,b), repr(sorted(d.items()))) for a, b, d in mol.edges(data=True))])\n"
                "print(json.dumps(out))\n") % (loader.REPO, cfg['frags'], cfg['aa'], kw, max(float(cinp['target']), 150.0))
        ck = (shape['cfg'], prog)
        if ck in self._xproc:
            return [('identical_molecules_across_processes_with_hash_seeds_0_to_7', self._xproc[ck])]
        dumps = set()
        for hs in range(8):
            env = dict(__import__('os').environ, PYTHONHASHSEED=str(hs), PBR_VERSION='0.0.0')
            p = subprocess.run([_sys.executable, '-c', prog], stdout=subprocess.PIPE, stderr=subprocess.DEVNULL, text=True, env=env, timeout=300)
            dumps.add(p.stdout.strip() if p.returncode == 0 else 'exit %d' % p.returncode)
        self._xproc[ck] = len(dumps) == 1
        return [('identical_molecules_across_processes_with_hash_seeds_0_to_7', len(dumps) == 1)]

    def _decoy(self, M, shape):
        """an earlier sampler in the same process whose fragments carry the same names but other bodies"""
        cfg = CONFIGS[shape['cfg']]
        if not cfg['aa'] or cfg['kw'].get('fragment_masses'):
            return
        names = [d.lstrip('#').split('=', 1)[0] for d in cfg['frags'][1:-1].split(',#')]
        text = '{' + ','.join('#%s=[$]CCCCCC[$]' % n for n in names) + '}'
        core.guard(M.sample.MoleculeSampler.from_fragment_string, text, polymer_reactivities={'$': 1.0}, all_atom=True, seed=3)
        # ... and one that lists the same fragments in the opposite order and grows by one fragment (its draws are pinned,
        # not explored): whatever it leaves behind in the process must not change what the sampler under test returns
        rev = '{' + ','.join('#' + d.lstrip('#') for d in reversed(cfg['frags'][1:-1].split(',#'))) + '}'
        type(STREAM).pinned = ('decoy',)

        def grow():
            s = M.sample.MoleculeSampler.from_fragment_string(rev, all_atom=True, seed='decoy', **cfg['kw'])
            s.sample(1)
        core.guard(grow)

    def execute(self, M, shape, inp):
        # two histories: (1) construct-and-sample in a fresh process; (2) in another fresh process (module state reset),
        # unrelated samplers first (decoys), then the same construct-and-sample.  The detailed clauses are judged on the run *after* the history (first in the
        # returned pair), the run before it is the reference for "the same molecule every time".
        if getattr(M, 'is_shadow', False):
            self._mode.clear()
            self._run_index[0] = 0
            r1 = core.guard(self._run_once, M, shape, inp, SEED, True)
            loader.reset_state(M)        # the second history starts in a fresh process
            self._decoy(M, shape)
            self._run_index[0] = 1
            r2 = core.guard(self._run_once, M, shape, inp, SEED, True)
            self._run_index[0] = 0
            inp['draws'] = dict(STREAM.draws)
            return [r2, r1]
        r1, r2 = self._real_run(M, shape, inp, seeds=(SEED, SEED), between=lambda: (loader.reset_state(M), self._decoy(M, shape)))
        return [r2, r1]

    def oracle(self, shape, inp, obs):
        r1, r2 = obs
        if r1[0] != 'ok':
            if r1[1] in LEGIT_STOPS:
                raise symx.PathAbort()
            return [('no_unexpected_exception', False)]
        cl = [('no_unexpected_exception', True)]
        cl.append(('same_seed_same_molecule', band(r2[0] == 'ok', deep_eq(r1[1], r2[1]) if r2[0] == 'ok' else False)))
        cfg = CONFIGS[shape['cfg']]
        o = r1[1]
        nodes = o['mol']['nodes']
        masses = o['masses']
        # order of addition = fragment id
        frag_name = {}
        for d in nodes.values():
            frag_name[d['fragid'][0]] = d['fragname']
        added = [frag_name[i] for i in sorted(frag_name) if i > 0]
        total = 0
        for nm in added:
            total = total + masses[nm]
        target = inp['target']
        cl.append(('added_mass_reaches_target', total >= target))
        if added:
            cl.append(('below_target_without_last', (total - masses[added[-1]]) < target))
        if cfg['aa'] and not cfg['kw'].get('fragment_masses'):
            defs = {}
            for d in cfg['frags'][1:-1].split(',#'):
                d = d.lstrip('#')
                nm, body = d.split('=', 1)
                defs[nm] = body
            cl.append(('element_derived_masses', all(abs(float(masses[nm]) - spec_mass(body)) < 1e-6 for nm, body in defs.items())))
        # reactivities
        pr = {with_order(k): v for k, v in cfg['kw']['polymer_reactivities'].items()}
        fr = {with_order(k): {with_order(k2): v2 for k2, v2 in v.items()} for k, v in cfg['kw'].get('fragment_reactivities', {}).items()}
        terms = [with_order(t) for t in cfg['kw'].get('terminal_bonds', [])]
        for a, b, order, bd in o['mol']['edges']:
            if bd is None:
                continue
            site, partner = bd
            cl.append(('zero_reactivity_site_never_used', pr.get(site, 0) > 0))
            if site in fr:
                cl.append(('zero_conditional_partner_never_used', fr[site].get(partner, 0) > 0))
            # terminal bookkeeping on the atom that offered the site (the endpoint with the smaller fragment id)
            src = a if nodes[a]['fragid'] < nodes[b]['fragid'] else b
            left = nodes[src].get('bonding')
            if partner in terms:
                cl.append(('terminated_atom_offers_nothing', not left))
            else:
                cl.append(('terminal_descriptors_withdrawn', all(x not in terms for x in (left or []))))
        # the node 'bonding' lists after growth are exactly: written - used, terminal descriptors withdrawn where documented
        from .c16 import wellformed_clauses
        cl += [c for c in wellformed_clauses(shape, o) if c[0] == 'descriptor_bookkeeping_exact']
        return cl

    def sample(self, shape, cinp):
        return {'cfg': shape['cfg'], 'target': str(cinp['target']), 'draws': list(cinp['draws'].values()),
                'masses': {k: str(v) for k, v in (cinp.get('masses') or {}).items()}}

    MUTANTS = {
        'stop_one_late': {'sample': ("        while current_weight < target_weight:", "        while current_weight <= target_weight:")},
        'missing_key_means_one': {'sample': ("        probs = np.array([probabilities.get(bond_type, 0) for bond_type in bonds])",
                                             "        probs = np.array([probabilities.get(bond_type, 1) for bond_type in bonds])")},
        'terminal_not_withdrawn': {'sample': ("                if bond not in self.terminal_bonds:\n                    clean_bonds.append(bond)",
                                              "                clean_bonds.append(bond)")},
        'reseed_ignored': {'sample': ("        random.seed(a=seed)\n", "        pass\n")},
    }


PROP = C17()
