"""C09 -- every atom of an atomistic result has a complete, standard valence."""
import copy

from .. import core, gen_graph as gg, gen_mol as gm, pipeline as pl, symx
from ..symx import SymStr, band, cat, sym_alnum, sym_char
from .c01 import install_summaries, OPT_VARIANTS

# strings with ambiguous / surplus descriptors, charged atoms, explicit and single hydrogens.
# '@k' marks a kind hole ($ < >), '@l' a label hole (alnum), '@o' an order symbol hole (- = or absent is a separate template)
TEMPLATES = [
    '{[#A]|3}.{#A=[$]CC[$]}',
    '{[#A]|2}.{#A=[$@l]CC[$@l]}',
    '{[#A]1[#A][#A]1}.{#A=[$]cc[$]}',
    '{[#A]1[#A][#A]1}.{#A=[$@l]cc[$@l]}',
    '{[#A]([#B])[#B]}.{#A=[$]C[$][$]C,#B=[$]O}',
    '{[#A][#B]}.{#A=[$@l][$@l]CC[$@l],#B=[$@l]N}',
    '{[#A][#B]}.{#A=C=[$@l],#B=[$@l]=C[$@l]}',
    '{[#A][#B]}.{#A=[NH3+]C[@k@l],#B=[@k@l]C([H])O}',
    '{[#A][#B]}.{#A=[O-]C(=O)C[>@l],#B=[<@l]C[H;w=0.5]}',
    '{[#H][#A][#H]}.{#H=[$][H],#A=[$]CC[$]}',
    '{[#H][#A]}.{#H=[$@l]H,#A=[$@l]C[$@l]}',
    '{[#A]=[#B]}.{#A=[$@l]CC[$@l],#B=[$@l]CC[$@l]}',
    '{[#A][#B][#C]}.{#A=C[S][$@l],#B=[$@l]P([$@l])C,#C=[$@l]Cl}',
    '{[#A][#B]}.{#A=c1ccccc1[$@l],#B=[$@l]c1ccncc1}',
    '{[#A][#B]}.{#A=C#[$@l],#B=[$@l]#C[$@l]}',
    '{[#A][#B]}.{#A=C[N+]([$@l])(C)C,#B=[$@l]C[@k@l]}',
    '{[#A][#B]}.{#A=[O;0]C[$@l],#B=[$@l]C[N;w=0]}',
    '{[#A]|2}.{#A=[$][C;w=0.5]([H;w=0])[C;0][$]}',
    # multivalent elements whose heavy-atom bonds lie between two of their valences (P at 4, S at 3 and 5)
    '{[#A]}.{#A=OP(=O)O}',
    '{[#A]|3}.{#A=[<@l]S(=O)(=O)CC[>@l]}',
    '{[#A][#B]}.{#A=CS(=O)[$@l],#B=[$@l]P(=O)(C)[$@l]}',
    # heavier main-group elements, written as bracket atoms: the same rule (a siloxane chain end, a selenide, an arsine, a germane)
    '{[#A]|3}.{#A=[<@l]O[Si](C)(C)[>@l]}',
    '{[#A][#B]}.{#A=C[Se][$@l],#B=[$@l][As](C)[$@l]}',
    '{[#A][#B]}.{#A=C[Ge]([$@l])[$@l],#B=[$@l]C}',
]


class C09(core.Prop):
    ID = 'C09'
    FUNCTIONS = ['rebuild_h_atoms', 'add_fragment', 'sample', 'edges_from_bonding_descrpt', 'read_fragment_smiles', 'resolve', 'resolve_disconnected_molecule',
                 'merge_graphs', 'sort_nodes_by_attr', 'strip_bonding_descriptors', 'match_bonding_descriptors', 'compatible']
    STUBS = ['re matcher (symx)', 'compatible(): summarised', 'pysmiles (valence arithmetic, aromaticity) and networkx run natively']
    ASSUMPTIONS = ['valence table V of DESIGN.md section 3.1 (spec side, not pysmiles\')',
                   'the clause on an atom applies when its bonds to heavy atoms fit max V(element, charge) (property precondition)',
                   'a string on which the resolver raises is not "resolvable": such paths are pruned and counted, not judged here',
                   'all-atom sampler outputs: the RNG stream / target exploration of C16 (<= 2-3 added fragments), judged by the valence clauses',
                   'a single-hydrogen fragment that the string gives no compatible descriptor for stays unbonded (not judged)']
    OUTSIDE = ['hyper-valent atoms (sum of heavy-atom bond orders above every standard valence)', 'elements other than B C N O F P S Cl Br I Si Ge As Se (and Na+)']
    BOUNDS = {
        'quick': 'C01 quick cases (first rendering) + the same cases with one surplus descriptor (free kind and label) on every atom position '
                 'of the first fragment + %d templates with ambiguous/surplus descriptors, charged atoms, explicit and single hydrogens '
                 '(labels/kinds symbolic)' % len(TEMPLATES),
        'thorough': 'C01 thorough cases <= 7 heavy atoms (2 renderings) + surplus descriptor on every atom + templates with label length 1-2',
    }
    LEVEL_TEXT = ('Bounded: on every feasible path of the real resolver (all descriptor kinds/labels, incl. ambiguous and left-over '
                  'descriptors) z3 decides the local valence clause for every heavy atom and the hydrogen clauses (degree 1, inherited '
                  'membership, name and weight, written hydrogens kept).')
    TECHNIQUE = 'symbolic execution of the resolver; local valence oracle from a spec-side valence table; z3'
    MAX_PATHS = 4000

    ALLOW_VACUOUS = True      # sampler sub-shapes: a prefix class of the first draws may be infeasible

    def setup_shadow(self, SH):
        install_summaries(SH)
        from .c16 import install_rng, PROP as C16P
        hooks = list(symx.RT.call_hooks)
        install_rng(SH)
        symx.RT.call_hooks = hooks + symx.RT.call_hooks
        C16P._cut = [0]

    def shapes(self, tier):
        from .c01 import PROP as C01P
        out = []
        mc = C01P.shapes(tier)
        if tier == 'quick':
            mc = [s for s in mc if s['opts'] == OPT_VARIANTS[0]]
        else:
            mc = [s for s in mc if s['opts'] in (OPT_VARIANTS[0], OPT_VARIANTS[2]) and len(gm.parse_smiles(s['smiles']).atoms) <= 7]
        for s in mc:
            out.append({'mode': 'case', 'case': s, 'surplus': None})
        for s in mc[::(3 if tier == 'quick' else 2)]:
            for a in s['blocks'][0]:
                out.append({'mode': 'case', 'case': s, 'surplus': a})
        for t in TEMPLATES:
            for ll in ((1,) if tier == 'quick' else (1, 2)):
                out.append({'mode': 'tmpl', 'text': t, 'lablen': ll})
                if ll == 1:
                    # the same string after other use of the library in the same process (pipeline.prelude)
                    out.append({'mode': 'tmpl', 'text': t, 'lablen': ll, 'prelude': True})
                    # ... and through another constructor / driver (pipeline.VARIANTS)
                    out.append({'mode': 'tmpl', 'text': t, 'lablen': ll, 'variant': 1 + (len(out) % (len(pl.VARIANTS) - 1))})
        # all-atom sampler outputs (the exploration of C16, judged here by the valence clauses only)
        from .c16 import CONFIGS, PROP as C16P
        for sh in C16P.shapes(tier):
            if CONFIGS[sh['cfg']]['aa']:
                out.append({'mode': 'sampler', 'sampler': dict(sh, kmax=2 if tier == 'quick' else 3)})
        return out

    def build(self, shape):
        if shape['mode'] == 'sampler':
            from .c16 import PROP as C16P
            return C16P.build(shape['sampler'])
        if shape['mode'] == 'case':
            case = shape['case']
            r = pl.render_case(case)
            text = r.text
            if shape['surplus'] is not None:
                # append a free descriptor right after the first fragment's definition start: '#F0=' + [k l] leading
                k = sym_char('sk', allowed='$<>')
                lab = sym_alnum('sl')
                marker = '#F0='
                items = list(SymStr.lift(text)._chs)
                s = ''.join(i if isinstance(i, str) else '?' for i in items)
                pos = s.index(marker) + len(marker)
                items[pos:pos] = ['[', k, lab, ']']
                text = SymStr.mk(items)
            return {'text': text}
        parts = []
        t = shape['text']
        i = 0
        n = 0
        while i < len(t):
            if t[i] == '@':
                if t[i + 1] == 'k':
                    parts.append(SymStr([sym_char('k%d' % n, allowed='$<>')]))
                elif t[i + 1] == 'l':
                    parts.append(SymStr([sym_alnum('l%d_%d' % (n, j)) for j in range(shape['lablen'])]))
                n += 1
                i += 2
            else:
                parts.append(t[i])
                i += 1
        return {'text': cat(*parts)}

    def execute(self, M, shape, inp):
        if shape['mode'] == 'sampler':
            from .c16 import PROP as C16P
            return C16P.execute(M, shape['sampler'], inp)
        if shape.get('prelude'):
            pl.prelude(M)
        if shape.get('variant'):
            return core.guard(pl.run_variant, M, inp['text'], pl.VARIANTS[shape['variant']])
        return core.guard(pl.run_resolver, M, inp['text'])

    def oracle(self, shape, inp, obs):
        if shape['mode'] == 'sampler':
            if obs[0] != 'ok':
                raise symx.PathAbort()
            from .c16 import CONFIGS
            return [('sampled', True)] + valence_clauses(obs[1]['mol'], written_hydrogen_weights(CONFIGS[shape['sampler']['cfg']]['frags']))
        if obs[0] != 'ok':
            raise symx.PathAbort()      # not resolvable: outside the property's quantifier
        cl = [('resolved', True)] + valence_clauses(obs[1]['mol'])
        if shape['mode'] == 'tmpl' and '[H;w=0.5]' in shape['text']:
            nodes = obs[1]['mol']['nodes']
            cl.append(('written_hydrogen_kept', any(d.get('element') == 'H' and d.get('weight') == 0.5 and 'mapping' in d
                                                    for d in nodes.values())))
        return cl

    def sample(self, shape, cinp):
        if shape['mode'] == 'sampler':
            return {'sampler': shape['sampler']['cfg'], 'target': str(cinp['target']), 'draws': list(cinp['draws'].values())}
        return cinp['text']

    MUTANTS = {
        'h_weight_not_inherited': {'pysmiles_utils': ("copy_attrs=['fragid', 'fragname', 'weight']", "copy_attrs=['fragid', 'fragname']")},
        'hcount_kept_from_fragment': {'pysmiles_utils': ("    nx.set_node_attributes(mol_graph, 0, 'hcount')\n", "    pass\n")},
        'single_h_merged': {'pysmiles_utils': ("            mol_graph.nodes[0]['single_h_frag'] = True\n", "            pass\n")},
    }


def written_hydrogen_weights(frags_text):
    """fragment name -> weights annotated on explicitly written hydrogens of that fragment ('[H;0.5]', '[H;w=0.5]')"""
    import re
    out = {}
    for d in frags_text[1:-1].split(',#'):
        name, body = d.lstrip('#').split('=', 1)
        for m in re.finditer(r'\[H;(?:w=)?([0-9.+-eE]+)[;\]]', body):
            out.setdefault(name, []).append(float(m.group(1)))
    return out


def valence_clauses(mol, written_h=None):
    """written_h: weights of the annotated hydrogens written in each fragment (sampler output carries no 'mapping' to
    tell a written hydrogen from a completed one)"""
    nodes = mol['nodes']
    cl = []
    g, h_ok, hs = pl.observed_heavy_graph(mol)
    cl.append(('hydrogens_degree_one', h_ok))
    for n in g.nodes:
        d = nodes[n]
        el, ch = d.get('element'), d.get('charge', 0)
        vs = gm.valences(el, ch)
        if vs is None:
            continue
        s = 0
        for nb in g[n]:
            s = s + g.edges[n, nb]['order']
        fits = s <= vs[-1]
        if not fits:            # forks when symbolic
            continue
        need = None
        for v in reversed(vs):
            need = (v - s) if need is None else symx.ite(s <= v, v - s, need)
        cl.append(('hydrogen_count', gg.val_eq(g.nodes[n]['nh'], need)))
    for h, nbs in hs.items():
        if len(nbs) != 1:
            continue
        x = nbs[0]
        if nodes[h].get('single_h_frag'):
            continue
        cl.append(('hydrogen_inherits', band(nodes[h].get('fragid') == nodes[x].get('fragid'),
                                             nodes[h].get('fragname') == nodes[x].get('fragname'))))
        if 'mapping' not in nodes[h] and not (written_h and not symx.is_sym(nodes[h].get('weight')) and
                                             nodes[h].get('weight') in (written_h or {}).get(nodes[h].get('fragname'), [])):
            # completed hydrogens carry their atom's weight (an explicitly written, annotated hydrogen keeps its own)
            cl.append(('hydrogen_inherits_weight', gg.val_eq(nodes[h].get('weight'), nodes[x].get('weight'))))
    return cl


PROP = C09()

# shape families added after the first complete pass (DESIGN 8.6-8.11); appended to the bounds written into the evidence
BOUNDS_ADDED = '; plus: P/S between two valences, every template also after pipeline.prelude and through one of pipeline.VARIANTS, sampler configurations with explicit hydrogens / supplied masses / [nH], Si / Ge / As / Se fragments'
PROP.BOUNDS = {k: v + BOUNDS_ADDED for k, v in PROP.BOUNDS.items()}
