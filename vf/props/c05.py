"""C05 -- the multiplication operator is shorthand for writing the unit out."""
import copy
import itertools

import networkx as nx

from .. import core, gen_graph as gg, symx
from ..symx import band


def expand(chain, mults, only=None):
    """longhand AST: every multiplied unit written out (copies share the node hole);
    with ``only`` just the multipliers whose id is listed are written out"""
    out = []
    for el in chain:
        bm = [b for b in el['br'] if b.get('mult')]
        if bm and (only is None or el['br'][0]['mult'] in only):
            b = el['br'][0]
            for r in range(mults[b['mult']]):
                c = dict(el, mult=None, ord=el.get('ord') if r == 0 else b.get('pre'),
                         br=[{'chain': expand(b['chain'], mults, only), 'mult': None, 'pre': None}])
                out.append(c)
            continue
        n = mults[el['mult']] if (el.get('mult') and (only is None or el['mult'] in only)) else 1
        keep = el.get('mult') if n == 1 and el.get('mult') and only is not None and el['mult'] not in only else None
        for r in range(n):
            c = dict(el, mult=keep, ord=el.get('ord') if r == 0 else None, br=[])
            if r == n - 1:
                c['br'] = [{'chain': expand(b['chain'], mults, only), 'mult': b.get('mult') if (only is not None and b.get('mult') not in only) else None,
                            'pre': b.get('pre') if (only is not None and b.get('mult') not in only) else None} for b in el['br']]
            out.append(c)
    return out


def denotation_graph(nodes, edges):
    g = nx.Graph()
    for i, a in enumerate(nodes):
        g.add_node(i, **a)
    for e, o in edges.items():
        a, b = tuple(e)
        g.add_edge(a, b, order=o)
    return g


def attrs_eq(a, b):
    if sorted(a.keys()) != sorted(b.keys()):
        return False
    return band(*[gg.val_eq(a[k], b[k]) for k in a])


class C05(core.Prop):
    ID = 'C05'
    FUNCTIONS = ['read_cgsmiles', '_find_next_character',
                 '_parse_dialect_string', 'check_and_cast_types']
    STUBS = ['re.finditer on a symbolic string -> backtracking matcher (symx)']
    ASSUMPTIONS = ['the multiplier count is a solver-chosen integer within the stated range; it is concretised '
                   'by forking (one path per value) because the longhand needs it',
                   'denotation of |n as fixed in DESIGN.md section 3.1',
                   'a multiplied branch is the only branch of its anchor; ring bonds join two non-multiplied nodes or two nodes of one multiplied unit (then one ring bond per copy)']
    OUTSIDE = ['a bond symbol directly after |n on a *node* (reader raises ValueError; undocumented)',
               'counts beyond the stated range; more than two multipliers in one string']
    BOUNDS = {
        'quick': 'trees <= 4 nodes, one multiplier (node at every position / branch at every position), count 1..3, '
                 'all bond-order positions symbolic, pre/post order symbols on multiplied branches, ring bond elsewhere, annotations on the multiplied node',
        'thorough': 'trees <= 5 nodes with one multiplier (count 1..5) and two multipliers incl. nested (count 1..3), count up to 12 on 2-3 node shapes',
    }
    LEVEL_TEXT = ('Bounded: per skeleton with multipliers, z3 decides on every path of the real reader that shorthand and '
                  'generated longhand read to isomorphic graphs (identical numbering for multiplied single nodes) and that both '
                  'equal the denoted graph, for all names, order symbols and counts in range.')
    TECHNIQUE = 'symbolic execution of read_cgsmiles on shorthand and longhand, metamorphic + by-construction oracle, z3'

    def shapes(self, tier):
        out = []
        nmax = 4 if tier == 'quick' else 5
        cmax = 3 if tier == 'quick' else 5

        def all_orders(s, skip_after=()):
            for el in list(gg.elems(s['chain']))[1:]:
                el['ord'] = 'o%d' % el['v']

        def candidates(base):
            """yield shapes with one multiplier placed"""
            els = list(gg.elems(base['chain']))
            for k in range(len(els)):
                # node multiplier on element k
                s = copy.deepcopy(base)
                all_orders(s)
                sel = list(gg.elems(s['chain']))
                el = sel[k]
                el['mult'] = 'm%d' % el['v']
                # nothing may carry an order symbol directly after '|n' on a node
                nxt = self._followers(s['chain'], el)
                for f in nxt:
                    f['ord'] = None
                yield s
            # branch multipliers
            s0 = copy.deepcopy(base)
            all_orders(s0)
            for el in gg.elems(s0['chain']):
                if len(el['br']) == 1:
                    for pre in (None, 'p%d' % el['v']):
                        for follower_symbol in (True, False):
                            s = copy.deepcopy(s0)
                            tgt = [e for e in gg.elems(s['chain']) if e['v'] == el['v']][0]
                            tgt['br'][0]['mult'] = 'b%d' % el['v']
                            tgt['br'][0]['pre'] = pre
                            if not follower_symbol:
                                # what follows the multiplied unit is written without a bond symbol of its own
                                fol = self._after_branch(s['chain'], tgt)
                                if fol is None:
                                    continue
                                fol['ord'] = None
                            yield s

        for n in range(1, nmax + 1):
            for base in gg.tree_shapes(n, max_nest=2):
                for s in candidates(base):
                    s['cmax'] = cmax
                    out.append(s)
        # ring bond elsewhere + annotation on multiplied node
        for base in gg.tree_shapes(4, max_nest=1)[:4]:
            for s in candidates(base):
                multiplied = self._multiplied_vs(s)
                cands = [(i, j) for (i, j) in gg.ring_candidates(base['parent']) if i not in multiplied and j not in multiplied]
                for (i, j) in cands[:2]:
                    t = copy.deepcopy(s)
                    t['rings'] = [[i, j, 'd', 's']]
                    t['cmax'] = 3
                    out.append(t)
        # ring bond inside the multiplied unit (anchor + branch): one ring per copy
        for base in gg.tree_shapes(4, max_nest=2) + (gg.tree_shapes(5, max_nest=2) if tier == 'thorough' else []):
            for s in candidates(base):
                for unit in self._branch_units(s):
                    cands = [(i, j) for (i, j) in gg.ring_candidates(base['parent']) if i in unit and j in unit]
                    for (i, j) in cands[:2]:
                        t = copy.deepcopy(s)
                        t['rings'] = [[i, j, 'd', 's']]
                        t['cmax'] = 3
                        out.append(t)
        for form in ('q_kw', 'q_free', 'free_uc'):
            for base in gg.tree_shapes(2, max_nest=1):
                for s in candidates(base):
                    for el in gg.elems(s['chain']):
                        el['ann'] = form
                    s['cmax'] = 3
                    out.append(s)
        if tier == 'quick':
            for base in gg.tree_shapes(3, max_nest=2) + gg.tree_shapes(4, max_nest=2)[:8]:
                firsts = list(candidates(base))
                for s1 in firsts[::2]:
                    for s2 in firsts[1::3]:
                        t = self._merge(s1, s2)
                        if t is not None:
                            t['cmax'] = 2
                            t['cmin'] = 2
                            out.append(t)
        if tier == 'thorough':
            # two multipliers (incl. nested: node multiplier inside a multiplied branch, branch in branch)
            for n in range(2, 5):
                for base in gg.tree_shapes(n, max_nest=2):
                    firsts = list(candidates(base))
                    for s1 in firsts:
                        for s2 in firsts:
                            t = self._merge(s1, s2)
                            if t is not None:
                                t['cmax'] = 3
                                out.append(t)
            # large counts on small shapes
            for n in (1, 2, 3):
                for base in gg.tree_shapes(n, max_nest=1):
                    for s in candidates(base):
                        s['cmin'], s['cmax'] = 6, 12
                        out.append(s)
        for s in out:
            s.pop('parent', None)
        # drop duplicates
        seen, uniq = set(), []
        for s in out:
            k = self.shape_key(s)
            if k not in seen:
                seen.add(k)
                uniq.append(s)
        return uniq

    @staticmethod
    def _branch_units(shape):
        """node ids of every multiplied unit (anchor + its branch incl. nested branches) without multipliers inside"""
        units = []

        def sub(ch, acc):
            ok = True
            for el in ch:
                acc.add(el['v'])
                if el.get('mult'):
                    ok = False
                for b in el['br']:
                    if b.get('mult') or not sub(b['chain'], acc):
                        ok = False
            return ok

        def visit(ch):
            for el in ch:
                for b in el['br']:
                    if b.get('mult'):
                        acc = {el['v']}
                        if sub(b['chain'], acc) and not el.get('mult'):
                            units.append(acc)
                    visit(b['chain'])
        visit(shape['chain'])
        return units

    @staticmethod
    def _after_branch(chain, target):
        """the element written directly after target's (single) branch: the chain continuation of target"""
        res = []

        def visit(ch):
            for i, el in enumerate(ch):
                if el is target and i + 1 < len(ch):
                    res.append(ch[i + 1])
                for b in el['br']:
                    visit(b['chain'])
        visit(chain)
        return res[0] if res else None

    @staticmethod
    def _followers(chain, target):
        """elements whose order symbol would be written directly after target's '|n'"""
        res = []

        def visit(ch):
            for i, el in enumerate(ch):
                if el is target:
                    if el['br']:
                        res.append(el['br'][0]['chain'][0])
                    elif i + 1 < len(ch):
                        res.append(ch[i + 1])
                for b in el['br']:
                    visit(b['chain'])
        visit(chain)
        return res

    @staticmethod
    def _multiplied_vs(shape):
        vs = set()

        def visit(chain, inside):
            for el in chain:
                bm = any(b.get('mult') for b in el['br'])
                if inside or el.get('mult') or bm:
                    vs.add(el['v'])
                for b in el['br']:
                    visit(b['chain'], inside or bool(b.get('mult')))
        visit(shape['chain'], False)
        return vs

    def _merge(self, s1, s2):
        """combine the multipliers of two single-multiplier variants of the same base"""
        t = copy.deepcopy(s1)
        e2 = {e['v']: e for e in gg.elems(s2['chain'])}
        changed = False
        for e in gg.elems(t['chain']):
            o = e2[e['v']]
            if o.get('mult') and not e.get('mult'):
                if any(b.get('mult') for b in e['br']):
                    return None
                e['mult'] = o['mult']
                changed = True
                for f in self._followers(t['chain'], e):
                    f['ord'] = None
            for b, ob in zip(e['br'], o['br']):
                if ob.get('mult') and not b.get('mult'):
                    if e.get('mult'):
                        return None
                    b['mult'], b['pre'] = ob['mult'], ob['pre']
                    changed = True
        if not changed:
            return None
        # a node multiplier directly followed by an order symbol is outside the grammar
        for e in gg.elems(t['chain']):
            if e.get('mult'):
                for f in self._followers(t['chain'], e):
                    f['ord'] = None
        return t

    def _mult_ids(self, shape):
        ids = []
        for el in gg.elems(shape['chain']):
            if el.get('mult'):
                ids.append(el['mult'])
            for b in el['br']:
                if b.get('mult'):
                    ids.append(b['mult'])
        return ids

    def build(self, shape):
        rec = gg.make_holes(shape)
        mults = {}
        for mid in self._mult_ids(shape):
            n = symx.sym_int('cnt_' + mid, shape.get('cmin', 1), shape['cmax'])
            mults[mid] = int(n)          # concretised by forking: one path per count
        short, long, conds = self._texts(shape, rec, mults)
        for c in conds:
            symx.ENG.assume(c)
        return {'short': short, 'long': long, 'holes': rec, 'mults': mults}

    @staticmethod
    def _texts(shape, rec, mults):
        short, conds = gg.render(shape, rec, mults)
        long_shape = {'chain': expand(shape['chain'], mults), 'rings': shape['rings']}
        long, conds2 = gg.render(long_shape, rec)
        return symx.cat('{', short, '}'), symx.cat('{', long, '}'), conds + conds2

    def execute(self, M, shape, inp):
        return [core.guard(M.read_cgsmiles.read_cgsmiles, inp['short']),
                core.guard(M.read_cgsmiles.read_cgsmiles, inp['long'])]

    def oracle(self, shape, inp, obs):
        s, l = obs
        if s[0] != 'ok' or l[0] != 'ok':
            return [('shorthand_accepted', s[0] == 'ok'), ('longhand_accepted', l[0] == 'ok')]
        mults = {k: int(v) for k, v in inp['mults'].items()}
        long_shape = {'chain': expand(shape['chain'], mults), 'rings': shape['rings']}
        nodes, edges = gg.denote(long_shape, inp['holes'])
        nodes2, edges2 = gg.denote(shape, inp['holes'], mults)
        cl = [('shorthand_accepted', True), ('longhand_accepted', True)]
        # the two ways of computing the denotation agree (generator self-consistency)
        cl.append(('denotations_agree', len(nodes) == len(nodes2) and set(edges) == set(edges2)))
        cl += [('long_' + n, c) for n, c in gg.graph_matches(l[1], nodes, edges)]
        only_node_mult = not any(b.get('mult') for el in gg.elems(shape['chain']) for b in el['br'])
        if only_node_mult:
            cl += [('short_' + n, c) for n, c in gg.graph_matches(s[1], nodes, edges)]
        ref = denotation_graph(nodes, edges)
        cl.append(('short_iso_denoted', gg.iso_clause(s[1], ref, attrs_eq, attrs_eq)))
        cl.append(('short_iso_long', gg.iso_clause(s[1], l[1], attrs_eq, attrs_eq)))
        return cl

    def sample(self, shape, cinp):
        return [cinp['short'], cinp['long']]

    MUTANTS = {
        'branch_mult_off_by_one': {'read_cgsmiles': (
            "for idx in range(1, int(pattern[eon_a+2:eon_b])):",
            "for idx in range(2, int(pattern[eon_a+2:eon_b])):")},
        'anchor_order_dropped': {'read_cgsmiles': (
            "mol_graph.add_edge(base_anchor, copy_of[prev_node], order=anchor_order)",
            "mol_graph.add_edge(base_anchor, copy_of[prev_node], order=1)")},
        'copies_bonded_to_first_anchor': {'read_cgsmiles': (
            "                    base_anchor = copy_of[prev_node]\n", "")},
        'ring_bond_in_unit_not_copied': {'read_cgsmiles': (
            "block_edges = list(mol_graph.subgraph(block).edges(data=True))",
            "block_edges = list(nx.minimum_spanning_tree(mol_graph.subgraph(block)).edges(data=True))")},
        'node_copies_inherit_order': {'read_cgsmiles': (
            "            prev_bond_order = bond_order\n\n            # here we have a double edge",
            "            # here we have a double edge")},
    }


PROP = C05()

# shape families added after the first complete pass (DESIGN 8.6-8.11); appended to the bounds written into the evidence
BOUNDS_ADDED = '; plus: ring bonds inside a multiplied unit, free and upper-case annotations on multiplied units'
PROP.BOUNDS = {k: v + BOUNDS_ADDED for k, v in PROP.BOUNDS.items()}
