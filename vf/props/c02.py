"""C02 -- the coarse-to-fine mapping is a faithful partition into fragment copies."""
import copy

import networkx as nx

from .. import core, gen_graph as gg, gen_mol as gm, pipeline as pl, symx
from ..symx import SymStr, band, bor, cat, sym_alnum
from .c01 import install_summaries, OPT_VARIANTS

# fragment library for the symbolic-name mode: (text with descriptors, clean text, all-atom?)
FRAGS_AA = ['[$]CC[$]', '[$]C(C)O[$]', '[$]C1CC1[$]', 'OC[$]', '[$]c1ccccc1', '[$]C[NH3+]', '[$][O;0.5]([H;0])C[$]', '[$]C[N;w=0]([H;w=0.25])[$]']
FRAGS_CG = ['[$][#P][#Q][$]', '[$][#R]1[#S][#T]1[$]', '[$][#U]([#V])[$]', '[#W][$]']


def strip_desc(text):
    """fragment text without bonding descriptors (and their order symbols) and without annotations"""
    import re
    d = r'\[[$<>!][^\]]*\]'
    # leading descriptors carry their order symbol behind them, all others in front
    m = re.match(r'^(?:%s[=#.\-]?)+' % d, text)
    head = ''
    if m:
        text = text[m.end():]
    text = re.sub(r'[=#.\-]?%s' % d, '', text)
    return re.sub(r';[^\]]*\]', ']', text)          # annotations inside bracket atoms


def template(text):
    """spec-side graph of a fragment definition: heavy atoms / coarse nodes / explicitly written annotated hydrogens,
    internal bonds, and the per-atom weight annotation (default 1)"""
    import re
    clean = strip_desc(text)
    mol = gm.parse_smiles(clean)
    # weights: first positional value or w=... of every bracket atom, in order of appearance
    weights = {}
    idx = -1
    no_desc = re.sub(r'[=#.\-]?\[[$<>!][^\]]*\][=#.\-]?', '', text)
    for tok in gm.tokenize(re.sub(r';[^\]]*\]', lambda m: m.group(0), no_desc)):
        if tok.kind == 'atom':
            idx += 1
            if tok.text.startswith('[') and ';' in tok.text:
                ann = tok.text[1:-1].split(';')[1:]
                w = None
                for k, entry in enumerate(ann):
                    if '=' in entry:
                        key, val = entry.split('=', 1)
                        if key == 'w':
                            w = float(val)
                    elif k == 0:
                        w = float(entry)
                if w is not None:
                    weights[idx] = w
    g = nx.Graph()
    for i, a in enumerate(mol.atoms):
        if a.get('element') == 'H' and i not in weights:
            continue            # plain explicit hydrogens are folded into the hydrogen count by the reader
        g.add_node(i, element=a.get('element'), name=a.get('name'), charge=a.get('charge', 0), weight=weights.get(i, 1.0))
    for (i, j), o in mol.bonds.items():
        if i in g and j in g:
            g.add_edge(i, j, order=o)
    return g


class C02(core.Prop):
    ID = 'C02'
    FUNCTIONS = ['resolve', 'resolve_disconnected_molecule', 'merge_graphs', 'annotate_fragments', 'sort_nodes_by_attr',
                 'rebuild_h_atoms', 'edges_from_bonding_descrpt', 'read_fragments', 'fragment_iter', 'read_fragment_cgsmiles',
                 'read_fragment_smiles', 'read_cgsmiles', 'strip_bonding_descriptors', 'squash_atoms', 'set_atom_names_atomistic']
    STUBS = ['re matcher (symx)', 'compatible(): summarised', 'pysmiles/networkx native']
    ASSUMPTIONS = ['mode names: every base-node name and every definition name is a symbolic alnum character; each base name equals at '
                   'least one definition name (undefined names: C11/C20); with repeated definition names the first definition is the one meant',
                   'mode mol: fragmentation cases of C01 with symbolic descriptor kinds/labels']
    OUTSIDE = ['more than one resolution step (C06)', 'virtual nodes (C11)', 'the copy-of-template clause for coarse nodes with shared atoms (C10)']
    BOUNDS = {
        'quick': 'names: base graphs <= 3 nodes (chain, branch, ring, |2) x 1-2 definitions from a library of %d atomistic / %d coarse fragments; '
                 'mol: C01 quick cases (first rendering)' % (len(FRAGS_AA), len(FRAGS_CG)),
        'thorough': 'names: base graphs <= 4 nodes x 1-3 definitions; mol: C01 thorough cases for molecules <= 7 heavy atoms (2 renderings)',
    }
    LEVEL_TEXT = ('Bounded: z3 explores every path of the real resolver for all fragment/base names (equal, distinct, repeated) and all descriptor '
                  'kinds/labels and decides the relational mapping clauses: membership both ways, cover, each coarse node\'s heavy atoms form a '
                  'copy of the definition its name selects, fragname agreement.')
    TECHNIQUE = 'symbolic execution of the resolver with symbolic names/descriptors; relational oracle with spec-side templates; z3'
    MAX_PATHS = 6000

    def setup_shadow(self, SH):
        install_summaries(SH)

    def shapes(self, tier):
        out = []
        nmax = 3 if tier == 'quick' else 4
        ndefs = (1, 2) if tier == 'quick' else (1, 2, 3)
        bases = []
        for n in range(1, nmax + 1):
            for base in gg.tree_shapes(n, max_nest=1):
                s = gg.no_double_close(base)
                par = s.pop('parent', None)
                bases.append(s)
                if n >= 3:
                    for (i, j) in gg.ring_candidates(par)[:1]:
                        t = copy.deepcopy(s)
                        t['rings'] = [[i, j, 'd', 'n']]
                        bases.append(t)
        # one multiplied shape
        m = copy.deepcopy(gg.tree_shapes(2, 1)[0])
        m.pop('parent', None)
        list(gg.elems(m['chain']))[1]['mult'] = 'm1'
        bases.append(m)
        for aa in (True, False):
            lib = FRAGS_AA if aa else FRAGS_CG
            for bi, base in enumerate(bases):
                for nd in ndefs:
                    nrot = 1 if tier == 'quick' else 2
                    for rot in range(nrot):
                        defs = [lib[(bi + rot * 2 + k) % len(lib)] for k in range(nd)]
                        out.append({'mode': 'names', 'g': base, 'defs': defs, 'aa': aa})
        # molecule cases
        from .c01 import PROP as C01P
        mc = C01P.shapes(tier)
        if tier == 'quick':
            mc = [s for s in mc if s['opts'] == OPT_VARIANTS[0]]
        else:
            mc = [s for s in mc if s['opts'] in (OPT_VARIANTS[0], OPT_VARIANTS[1]) and len(gm.parse_smiles(s['smiles']).atoms) <= 7]
        for s in mc:
            out.append({'mode': 'mol', 'case': s})
        # the same cases driven through from_graph with a base graph whose node keys are not 0..n-1
        for s in mc[::(4 if tier == 'quick' else 3)]:
            out.append({'mode': 'mol', 'case': s, 'graph_keys': 'offset'})
        # ... and with the reader's keys but nodes and edges inserted in another order
        for s in mc[1::(3 if tier == 'quick' else 2)]:
            out.append({'mode': 'mol', 'case': s, 'graph_keys': 'rev'})
        for base in bases[:6]:
            out.append({'mode': 'names', 'g': base, 'defs': [FRAGS_AA[0], FRAGS_AA[6]], 'aa': True, 'graph_keys': 'rev'})
            out.append({'mode': 'names', 'g': base, 'defs': [FRAGS_CG[0], FRAGS_CG[1]], 'aa': False, 'graph_keys': 'rev'})
        # the other constructors / drivers / an earlier use of the library in the same process (pipeline.VARIANTS)
        nv = len(pl.VARIANTS) - 1
        for i, s in enumerate(mc[::(2 if tier == 'quick' else 1)]):
            out.append({'mode': 'mol', 'case': s, 'variant': 1 + i % nv})
        # shared atoms: membership and member graphs as sets (copy-of-template is the subject of C10)
        from .c10 import PROP as C10P
        sc = [s for s in C10P.shapes(tier) if s.get('mode') != 'coarse']
        for s in sc[::(3 if tier == 'quick' else 5)]:
            out.append({'mode': 'mol', 'case': s, 'shared': True})
        return out

    # ------------------------------------------------------------------
    def build(self, shape):
        if shape['mode'] == 'mol':
            r = pl.render_case(shape['case'])
            return {'text': r.text, 'holes': r.holes}
        g = shape['g']
        rec = gg.make_holes(g)
        mults = {'m1': 2}
        text, conds = gg.render(g, rec, mults)
        defs = [SymStr([sym_alnum('d%d' % k)]) for k in range(len(shape['defs']))]
        for key, nm in rec['name'].items():
            symx.ENG.assume(bor(*[nm == d for d in defs]))
        ftext = cat(*[cat('' if k == 0 else ',', '#', d, '=', body) for k, (d, body) in enumerate(zip(defs, shape['defs']))])
        return {'text': cat('{', text, '}.{', ftext, '}'), 'holes': rec, 'defs': defs}

    def execute(self, M, shape, inp):
        aa = shape.get('aa', True)
        if shape.get('graph_keys') == 'offset':
            def run():
                base, frag = self._split(inp['text'])
                g0 = M.read_cgsmiles.read_cgsmiles(base)
                g = nx.relabel_nodes(g0, {n: 3 * n + 2 for n in g0.nodes}, copy=True)
                meta, mol = M.resolve.MoleculeResolver.from_graph(frag, g, last_all_atom=aa).resolve()
                return {'meta': pl.meta_data(meta), 'mol': pl.graph_data(mol)}
            return core.guard(run)
        if shape.get('variant'):
            return core.guard(pl.run_variant, M, inp['text'], pl.VARIANTS[shape['variant']], last_all_atom=aa)
        return core.guard(pl.run_resolver, M, inp['text'], last_all_atom=aa, entry=('graph_rev' if shape.get('graph_keys') == 'rev' else 'string'))

    @staticmethod
    def _split(text):
        items = symx.SymStr.lift(text)._chs
        depth = 0
        for i, c in enumerate(items):
            if isinstance(c, str) and c == '}':
                return symx.SymStr.mk(items[:i + 1]), symx.SymStr.mk(items[i + 2:])
        raise ValueError(text)

    # ------------------------------------------------------------------
    def oracle(self, shape, inp, obs):
        if obs[0] != 'ok':
            return [('accepted', False)]
        meta, mol = obs[1]['meta'], obs[1]['mol']
        nodes = mol['nodes']
        cl = [('accepted', True)]
        # membership both ways + cover
        member_of = {n: [] for n in nodes}
        ok_members = True
        for k, d in meta['nodes'].items():
            for n in d.get('_members', []):
                if n not in member_of:
                    ok_members = False
                else:
                    member_of[n].append(k)
        cl.append(('members_are_fine_nodes', ok_members))
        cl.append(('fragid_equals_membership', all(sorted(set(nodes[n].get('fragid', []))) == sorted(member_of[n]) for n in nodes)))
        cl.append(('cover', all(len(member_of[n]) >= 1 for n in nodes)))
        # member edges are exactly the fine edges inside the member set
        fine_edges = {frozenset((a, b)) for a, b, _o, _bd in mol['edges']}
        for k, d in meta['nodes'].items():
            mem = set(d.get('_members', []))
            inside = {e for e in fine_edges if e <= mem}
            cl.append(('member_edges', {frozenset(e) for e in d.get('_member_edges', [])} == inside))
        # copies of the selected template
        order_of = {frozenset((a, b)): o for a, b, o, _bd in mol['edges']}
        if shape['mode'] == 'mol':
            case = shape['case']
            r = None
            spec = gm.parse_smiles(case['smiles'])
            # block of coarse node k: the base graph lists blocks in DFS order from opts.root
            cnt = {}
            where = {a: bi for bi, b in enumerate(case['blocks']) for a in b}
            for (i, j) in case['cut']:
                key = tuple(sorted((where[i], where[j])))
                cnt[key] = cnt.get(key, 0) + 1
            _p, border = pl.base_graph_text(len(case['blocks']), cnt, root=case['opts'].get('root', 0) % len(case['blocks']),
                                            rev=bool(case['opts'].get('rev', 0)))
            if shape.get('shared'):
                return cl
            keymap = sorted(meta['nodes'])
            for ki, k in enumerate(keymap):
                block = case['blocks'][border[ki]]
                tmpl = nx.Graph()
                for a in block:
                    tmpl.add_node(a, element=spec.atoms[a]['element'], charge=spec.atoms[a]['charge'])
                for (i, j), o in spec.bonds.items():
                    if i in block and j in block:
                        tmpl.add_edge(i, j, order=o)
                cl.append(('fragname', band(*[nodes[n].get('fragname') == 'F%d' % border[ki] for n in meta['nodes'][k]['_members']])))
                cl.append(('copy_of_template', self._copy_clause(meta['nodes'][k], nodes, order_of, tmpl, True)))
            return cl
        aa = shape['aa']
        tmpls = [template(t) for t in shape['defs']]
        for k in sorted(meta['nodes']):
            nm = meta['nodes'][k].get('fragname')
            chosen = None
            for j, d in enumerate(inp['defs']):
                if nm == d:            # forks: first definition with this name
                    chosen = j
                    break
            if chosen is None:
                cl.append(('name_defined', False))
                continue
            cl.append(('fragname', band(*[nodes[n].get('fragname') == nm for n in meta['nodes'][k]['_members']])))
            cl.append(('copy_of_template', self._copy_clause(meta['nodes'][k], nodes, order_of, tmpls[chosen], aa)))
        return cl

    @staticmethod
    def _copy_clause(mnode, nodes, order_of, tmpl, aa):
        mem = mnode.get('_members', [])
        heavy = [n for n in mem if not (aa and nodes[n].get('element') == 'H' and 'mapping' not in nodes[n])]
        g = nx.Graph()
        for n in heavy:
            g.add_node(n, **nodes[n])
        for e, o in order_of.items():
            a, b = tuple(e)
            if a in g and b in g:
                g.add_edge(a, b, order=o)

        def neq(x, y):
            if aa:
                return band(x.get('element') == y.get('element'), gg.val_eq(x.get('charge', 0), y.get('charge', 0)),
                            gg.val_eq(x.get('weight', 1), y.get('weight', 1)))
            return x.get('atomname') == y.get('name')

        def eeq(x, y):
            if aa and y.get('order') == 1.5:
                return True if x.get('order') in (1.5,) else False
            return gg.val_eq(x.get('order'), y.get('order'))
        return gg.iso_clause(g, tmpl, neq, eeq)

    def sample(self, shape, cinp):
        return cinp['text']

    MUTANTS = {
        # (the running offset of merge_graphs no longer decides the resolver's fragment ids since repair 6a2a039: the old
        #  mutant on that line became equivalent for this property; it lives on in C16, where the sampler relies on it)
        'fragid_lags_from_sixth_atom': {'resolve': (
            "                self.molecule.nodes[new_node]['fragid'] = [meta_node]",
            "                self.molecule.nodes[new_node]['fragid'] = [meta_node if len(self.molecule) < 6 else meta_node - 1]")},
        'first_definition_overwritten': {'read_fragments': (
            "        if fragname not in fragment_dict:\n            fragment_dict[fragname] = mol_graph", "        fragment_dict[fragname] = mol_graph")},
        'hydrogen_membership_lost': {'pysmiles_utils': ("copy_attrs=['fragid', 'fragname', 'weight']", "copy_attrs=['fragname', 'weight']")},
    }


PROP = C02()

# shape families added after the first complete pass (DESIGN 8.6-8.11); appended to the bounds written into the evidence
BOUNDS_ADDED = '; plus: from_graph with offset keys and with reversed insertion order (atoms and beads), pipeline.VARIANTS on the molecule cases, shared-atom cases of C10 incl. aromatic ones'
PROP.BOUNDS = {k: v + BOUNDS_ADDED for k, v in PROP.BOUNDS.items()}
