"""C07 -- writing a graph and reading it back is the identity."""
import itertools

import networkx as nx

from .. import core, gen_graph as gg, symx
from ..symx import SymStr, band, sym_alnum, sym_int


def atlas(nmin, nmax):
    from networkx.generators.atlas import graph_atlas_g
    return [g for g in graph_atlas_g() if nmin <= len(g) <= nmax and nx.is_connected(g)]


class C07(core.Prop):
    ID = 'C07'
    FUNCTIONS = ['write_cgsmiles_graph', 'write_graph', 'format_node', 'read_cgsmiles', '_find_next_character', '_parse_dialect_string']
    STUBS = ['pysmiles _write_edge_symbol / _get_ring_marker and networkx dfs_successors run natively on symbolic bond orders '
             '(comparisons fork through the engine)', 're matcher (symx)']
    ASSUMPTIONS = ['every edge order is a symbolic integer 0..4, every node name a symbolic alnum character (1 character)',
                   'node keys are integers (a relabeling = a permutation of 0..n-1, or the keys 3,7,11,... in permuted order)']
    OUTSIDE = ['graphs beyond the node bound (no random tail is claimed)', 'multi-character names', 'non-integer node keys']
    BOUNDS = {
        'quick': 'all connected graphs with 1-4 nodes and those with 5 nodes and <= 5 edges (graph atlas), atlas numbering plus reversed and one rotated relabeling for <= 4 nodes',
        'thorough': 'all connected graphs with 1-5 nodes and those with 6 nodes and <= 7 edges; all relabelings for <= 4 nodes, 2-6 relabelings for 5 nodes, 1-2 for 6 nodes; non-contiguous keys; '
                    'a 12-ring-closure graph for the %nn marker path of the writer',
    }
    LEVEL_TEXT = ('Bounded: for every connected graph shape and relabeling within the bound z3 decides, with ALL bond orders (0-4 on every edge) '
                  'and names symbolic, that the written string is accepted by the real reader and reads back to an isomorphic graph '
                  '(names, orders) - tree, branch and ring-closing edges alike.')
    TECHNIQUE = 'symbolic execution of writer then reader with every bond order a symbolic integer; isomorphism oracle as disjunction over bijections; z3'
    MAX_PATHS = 50000

    def shapes(self, tier):
        out = []
        nmax = 5 if tier == 'quick' else 6
        for g in atlas(1, nmax):
            n = len(g)
            edges = sorted(g.edges)
            ne = len(edges)
            # the writer decides per edge whether a symbol is written: 2^edges paths per shape
            if tier == 'quick' and (ne > 5 + (n <= 4)):
                continue
            if tier == 'thorough' and n == 6 and ne > 7:
                continue
            perms = [tuple(range(n))]
            if tier == 'quick':
                if 2 <= n <= 4:
                    perms += [tuple(reversed(range(n))), tuple((i + 1) % n for i in range(n))]
            else:
                allp = list(itertools.permutations(range(n)))
                if n <= 4:
                    perms = allp
                elif n == 5:
                    perms = allp[::len(allp) // 6][:6] if ne <= 6 else [allp[0], allp[-1]]
                else:
                    perms = [allp[0], allp[-1]] if ne <= 6 else [allp[0]]
            for p in dict.fromkeys(perms):
                out.append({'n': n, 'edges': [list(e) for e in edges], 'perm': list(p), 'stride': 1})
            if tier == 'thorough' and n <= 4:
                out.append({'n': n, 'edges': [list(e) for e in edges], 'perm': list(reversed(range(n))), 'stride': 4})
        if tier == 'quick':
            # a node that closes one ring and opens another (two triangles sharing a node); every rotation of the keys
            bow = [[0, 1], [0, 2], [1, 2], [2, 3], [2, 4], [3, 4]]
            for r in range(5):
                out.append({'n': 5, 'edges': bow, 'perm': [(i + r) % 5 for i in range(5)], 'stride': 1})
            out.append({'n': 5, 'edges': bow, 'perm': [4, 3, 2, 1, 0], 'stride': 1})
            # more than nine ring bonds open at once (markers 10, 11 are written %10, %11)
            n = 13
            out.append({'n': n, 'edges': [[0, i] for i in range(1, n)] + [[1, i] for i in range(2, n)], 'perm': list(range(n)), 'stride': 1,
                        'free_orders': 1})
            # dense graphs (many ring bonds open at once, markers released and re-used out of order): every 5-node graph
            # with 6-10 edges, 2 bond orders symbolic
            for g in atlas(5, 5):
                if g.number_of_edges() >= 6:
                    for p in ([0, 1, 2, 3, 4], [4, 3, 2, 1, 0]):
                        out.append({'n': 5, 'edges': [list(e) for e in sorted(g.edges)], 'perm': p, 'stride': 1, 'free_orders': 2})
        if tier == 'thorough':
            # many ring closures: K_{2,7}-like graph forces > 9 simultaneously open markers
            n = 9
            edges = [[0, i] for i in range(1, n)] + [[1, i] for i in range(2, n)]
            out.append({'n': n, 'edges': edges, 'perm': list(range(n)), 'stride': 1, 'free_orders': 3})
            n = 13
            edges = [[0, i] for i in range(1, n)] + [[1, i] for i in range(2, n)]
            out.append({'n': n, 'edges': edges, 'perm': list(range(n)), 'stride': 1, 'free_orders': 2})
        return out

    def build(self, shape):
        n = shape['n']
        if shape.get('free_orders') is not None:
            names = ['%s' % 'ABCDEFGHIJKLMNOP'[i] for i in range(n)]      # many ring closures: concrete distinct names
        else:
            names = [SymStr([sym_alnum('nm%d' % i)]) for i in range(n)]
        orders = []
        for k, e in enumerate(shape['edges']):
            if shape.get('free_orders') is not None and k >= shape['free_orders']:
                orders.append(1 + (k % 2))
            else:
                orders.append(sym_int('o%d' % k, 0, 4))
        return {'names': names, 'orders': orders}

    @staticmethod
    def _graph(shape, inp):
        g = nx.Graph()
        key = lambda i: 3 + shape['perm'][i] * shape['stride'] if shape['stride'] > 1 else shape['perm'][i]
        for i in range(shape['n']):
            g.add_node(key(i), fragname=inp['names'][i])
        for (a, b), o in zip(shape['edges'], inp['orders']):
            g.add_edge(key(a), key(b), order=o)
        return g

    def execute(self, M, shape, inp):
        g = self._graph(shape, inp)
        w = core.guard(M.write_cgsmiles.write_cgsmiles_graph, g)
        if w[0] != 'ok':
            return {'written': w, 'read': None}
        r = core.guard(M.read_cgsmiles.read_cgsmiles, w[1])
        if r[0] == 'ok':
            g2 = r[1]
            r = ('ok', {'nodes': {k: dict(d) for k, d in g2.nodes(data=True)},
                        'edges': [[a, b, d.get('order')] for a, b, d in g2.edges(data=True)]})
        return {'written': w, 'read': r}

    def oracle(self, shape, inp, obs):
        cl = [('writer_succeeds', obs['written'][0] == 'ok')]
        if obs['written'][0] != 'ok':
            return cl
        cl.append(('reader_accepts_written_string', obs['read'][0] == 'ok'))
        if obs['read'][0] != 'ok':
            return cl
        g = self._graph(shape, inp)
        r = nx.Graph()
        for k, d in obs['read'][1]['nodes'].items():
            r.add_node(k, **d)
        for a, b, o in obs['read'][1]['edges']:
            r.add_edge(a, b, order=o)
        cl.append(('same_size', len(g) == len(r) and g.number_of_edges() == r.number_of_edges()))
        cl.append(('isomorphic_with_names_and_orders', gg.iso_clause(
            g, r, lambda x, y: x['fragname'] == y.get('fragname'), lambda x, y: x['order'] == y.get('order'),
            concrete_label=(lambda a: a.get('fragname')) if shape.get('free_orders') is not None else None)))
        return cl

    def sample(self, shape, cinp):
        return {'edges': shape['edges'], 'perm': shape['perm'], 'orders': cinp['orders'], 'names': cinp['names']}

    MUTANTS = {
        'zero_order_symbol_dropped': {'write_cgsmiles': ("order_to_symbol = {0: '.', 1: '-', 1.5: ':', 2: '=', 3: '#', 4: '$'}",
                                                         "order_to_symbol = {0: '', 1: '-', 1.5: ':', 2: '=', 3: '#', 4: '$'}")},
        'triple_written_as_double': {'write_cgsmiles': ("order_to_symbol = {0: '.', 1: '-', 1.5: ':', 2: '=', 3: '#', 4: '$'}",
                                                        "order_to_symbol = {0: '.', 1: '-', 1.5: ':', 2: '=', 3: '=', 4: '$'}")},
    }


PROP = C07()
