"""C18 -- the RDKit bridge keeps chemistry and puts coordinates on the right atoms (RDKit stubbed)."""
import itertools

import networkx as nx
import z3

from .. import core, gen_graph as gg, loader, symx
from ..symx import SymInt, SymReal, band, sym_int, sym_real

ATOMIC_NUM = {'H': 1, 'C': 6, 'N': 7, 'O': 8, 'F': 9, 'S': 16, 'Cl': 17, '*': 0}
BT_DOUBLE = {'ZERO': 0.0, 'SINGLE': 1.0, 'DOUBLE': 2.0, 'TRIPLE': 3.0, 'QUADRUPLE': 4.0, 'AROMATIC': 1.5}


# ---- small model of the RDKit calls the bridge makes (documented indexing only; no chemistry) ------------------
class _Fake:
    """an RDKit call the model does not cover is an engine limitation (inconclusive), not a failure of the code"""

    def __getattr__(self, name):
        if not name[:1].isupper():       # RDKit's API is CamelCase; anything else is ordinary attribute probing
            raise AttributeError(name)
        raise symx.Unsupported('RDKit API outside the model: %s.%s' % (type(self).__name__, name))


class _FakeMeta(type):
    def __getattr__(cls, name):
        if not name[:1].isupper():
            raise AttributeError(name)
        raise symx.Unsupported('RDKit API outside the model: %s.%s' % (cls.__name__, name))


class FAtom(_Fake):
    def __init__(self, symbol):
        self.symbol, self.charge, self.idx, self.nh = symbol, 0, None, 0

    def SetFormalCharge(self, c):
        self.charge = c

    def GetFormalCharge(self):
        return self.charge

    def GetAtomicNum(self):
        return ATOMIC_NUM.get(self.symbol, 0)

    def GetSymbol(self):
        return self.symbol

    def GetTotalNumHs(self):
        return self.nh          # chemistry perception is not modelled

    def GetIdx(self):
        return self.idx


class FBond(_Fake):
    def __init__(self, i, j, bt):
        self.i, self.j, self.bt = i, j, bt

    def GetBondTypeAsDouble(self):
        name = getattr(self.bt, 'name', None)
        if name in BT_DOUBLE:
            return BT_DOUBLE[name]
        return float(self.bt)

    def GetBondType(self):
        return self.bt

    def GetIsAromatic(self):
        return getattr(self.bt, 'name', None) == 'AROMATIC'

    def GetBeginAtomIdx(self):
        return self.i

    def GetEndAtomIdx(self):
        return self.j


class FPos:
    def __init__(self, xyz):
        self.x, self.y, self.z = xyz


def _unsup(what):
    def f(self, *a, **kw):
        raise symx.Unsupported('numpy operation outside the model of position vectors: %s' % what)
    return f


class _ArrayLike:
    """operations the stand-ins do not model are engine limitations (inconclusive), never a failure of the code"""

    def __getattr__(self, name):
        if name.startswith('__'):
            raise AttributeError(name)
        raise symx.Unsupported('numpy attribute outside the model of position vectors: %s.%s' % (type(self).__name__, name))

    for _op in ('__pow__', '__rpow__', '__floordiv__', '__rfloordiv__', '__mod__', '__rmod__', '__lt__', '__le__', '__gt__', '__ge__',
                '__and__', '__or__', '__invert__', '__abs__', '__setitem__', '__contains__'):
        locals()[_op] = _unsup(_op)
    del _op


class Column(_ArrayLike):
    """v[:, np.newaxis] / v.reshape(-1, 1): one factor per row"""

    def __init__(self, xs):
        self.xs = list(xs)


class FRows(_ArrayLike):
    """stand-in for an (n, 3) coordinate array (Conformer.GetPositions(), np.array of position vectors): rows are vectors"""

    def __init__(self, rows):
        self.rows = [tuple(r) for r in rows]

    def __len__(self):
        return len(self.rows)

    def __getitem__(self, i):
        if isinstance(i, slice):
            return FRows(self.rows[i])
        if isinstance(i, tuple):
            r, c = i
            if isinstance(r, int) and isinstance(c, int):
                return self.rows[r][c]
            raise symx.Unsupported('numpy indexing outside the model of position vectors')
        return SymVec(list(self.rows[i]))

    def __setitem__(self, i, v):
        if not isinstance(i, int):
            raise symx.Unsupported('numpy item assignment outside the model of position vectors')
        v = list(v.xs) if isinstance(v, SymVec) else list(v)
        if len(v) != len(self.rows[i]):
            raise ValueError('could not broadcast input array')
        self.rows[i] = tuple(v)

    def __iter__(self):
        return iter(SymVec(list(r)) for r in self.rows)

    def copy(self):
        return FRows(self.rows)

    def tolist(self):
        return [list(r) for r in self.rows]

    @property
    def shape(self):
        return (len(self.rows), len(self.rows[0]) if self.rows else 0)

    def _rowwise(self, o, f):
        if isinstance(o, Column):
            if len(o.xs) != len(self.rows):
                raise ValueError('operands could not be broadcast together')
            return FRows([[f(x, k) for x in r] for r, k in zip(self.rows, o.xs)])
        if isinstance(o, SymVec):        # broadcast along the rows
            return FRows([[f(x, y) for x, y in zip(r, o.xs)] for r in self.rows])
        if isinstance(o, FRows):
            return FRows([[f(x, y) for x, y in zip(r, q)] for r, q in zip(self.rows, o.rows)])
        return FRows([[f(x, o) for x in r] for r in self.rows])

    def __mul__(self, o): return self._rowwise(o, lambda a, b: a * b)
    __rmul__ = __mul__
    def __truediv__(self, o): return self._rowwise(o, lambda a, b: a / b)
    def __add__(self, o): return self._rowwise(o, lambda a, b: a + b)
    __radd__ = __add__
    def __sub__(self, o): return self._rowwise(o, lambda a, b: a - b)

    def sum(self, axis=None, **kw):
        if axis != 0 or kw:
            raise symx.Unsupported('array.sum over an axis other than 0')
        if not self.rows:
            raise symx.Unsupported('sum of an empty array')
        cols = list(zip(*self.rows))
        out = []
        for c in cols:
            t = c[0]
            for x in c[1:]:
                t = t + x
            out.append(t)
        return SymVec(out)

    def mean(self, axis=None, **kw):
        return self.sum(axis=axis, **kw) / len(self.rows)

    def __rmatmul__(self, w):
        return SymVec(list(w)) @ self


class FConf(_Fake):
    def __init__(self, positions):
        self.positions = positions

    def GetAtomPosition(self, idx):
        return FPos(self.positions[idx])

    def GetPositions(self):
        return FRows(self.positions)

    def GetNumAtoms(self):
        return len(self.positions)

    def __bool__(self):
        return True


class FMol(_Fake):
    """atoms get consecutive indices in insertion order; GetAtoms iterates by index; SanitizeMol keeps indices"""

    def __init__(self):
        self.atoms, self.bonds, self.conf = [], [], None

    def AddAtom(self, atom):
        atom.idx = len(self.atoms)
        self.atoms.append(atom)
        return atom.idx

    def AddBond(self, i, j, bt):
        self.bonds.append(FBond(i, j, bt))

    def GetMol(self):
        return self

    def GetAtoms(self):
        return list(self.atoms)

    def GetBonds(self):
        return list(self.bonds)

    def GetConformer(self, conf_id=-1):
        if self.conf is None or conf_id not in (-1, 0):
            raise ValueError("Bad Conformer Id")
        return self.conf

    def GetNumConformers(self):
        return 0 if self.conf is None else 1

    def GetNumAtoms(self):
        return len(self.atoms)

    def GetNumBonds(self):
        return len(self.bonds)

    def GetAtomWithIdx(self, idx):
        return self.atoms[idx]

    def GetBondBetweenAtoms(self, i, j):
        for b in self.bonds:
            if {b.i, b.j} == {i, j}:
                return b
        return None


class FChem(metaclass=_FakeMeta):
    RWMol = FMol
    Atom = FAtom
    extra_h = 0

    @staticmethod
    def SanitizeMol(m, *a, **kw):
        return None

    @staticmethod
    def MolToSmiles(m, *a, **kw):
        """a canonical string: the same for the same molecule whatever the order of its atoms (Weisfeiler-Lehman hash
        over element, concrete charge and bond type; symbolic charges are left out of the key)"""
        g = nx.Graph()
        for a_ in m.atoms:
            q = a_.charge
            g.add_node(a_.idx, lab="%s%s" % (a_.symbol, '' if symx.is_sym(q) else q))
        for b in m.bonds:
            g.add_edge(b.i, b.j, lab=str(getattr(b.bt, 'name', b.bt)))
        return 'canon:' + nx.weisfeiler_lehman_graph_hash(g, node_attr='lab', edge_attr='lab')

    @classmethod
    def AddHs(cls, m, *a, **kw):
        # AddHs appends hydrogens after the existing atoms (documented); how many is chemistry: a shape parameter
        for _ in range(cls.extra_h):
            m.AddAtom(FAtom('H'))
        return m


class FAllChem(metaclass=_FakeMeta):
    positions = None      # set by the harness: list of (x, y, z) per atom index

    last_symbols = None

    @classmethod
    def EmbedMolecule(cls, m, *a, **kw):
        m.conf = FConf(cls.positions)
        cls.last_symbols = [a.symbol for a in m.atoms]     # which RDKit atom (index) was created for which node (unique symbols)
        return 0

    @staticmethod
    def UFFOptimizeMolecule(m, *a, **kw):
        return 0

    @staticmethod
    def MMFFOptimizeMolecule(m, *a, **kw):
        return 0


class SymVec(_ArrayLike):
    """stand-in for a 1-D numpy vector over exact reals (a position, or a vector of weights)"""

    def __init__(self, xs):
        self.xs = list(xs)

    def _bin(self, o, f):
        if isinstance(o, SymVec):
            return SymVec([f(a, b) for a, b in zip(self.xs, o.xs)])
        if isinstance(o, (FRows, Column)):
            return NotImplemented
        return SymVec([f(a, o) for a in self.xs])

    def __add__(self, o): return self._bin(o, lambda a, b: a + b)
    __radd__ = __add__
    def __sub__(self, o): return self._bin(o, lambda a, b: a - b)
    def __rsub__(self, o): return self._bin(o, lambda a, b: b - a)
    def __mul__(self, o): return self._bin(o, lambda a, b: a * b)
    __rmul__ = __mul__
    def __truediv__(self, o): return self._bin(o, lambda a, b: a / b)
    def __neg__(self): return SymVec([-a for a in self.xs])

    # augmented assignment works in place, as on a numpy array (aliases of the vector see the change)
    def _inplace(self, r):
        if r is NotImplemented:
            raise symx.Unsupported('in-place arithmetic between a vector and an array')
        self.xs = list(r.xs)
        return self

    def __iadd__(self, o): return self._inplace(self + o)
    def __isub__(self, o): return self._inplace(self - o)
    def __imul__(self, o): return self._inplace(self * o)
    def __itruediv__(self, o): return self._inplace(self / o)

    def copy(self):
        return SymVec(list(self.xs))

    def tolist(self):
        return list(self.xs)

    def __iter__(self):
        return iter(self.xs)

    def __len__(self):
        return len(self.xs)

    @property
    def shape(self):
        return (len(self.xs),)

    def __getitem__(self, i):
        if isinstance(i, tuple):
            if len(i) == 2 and i[0] == slice(None) and i[1] is None:
                return Column(self.xs)          # v[:, np.newaxis]
            raise symx.Unsupported('numpy indexing outside the model of position vectors')
        if isinstance(i, slice):
            return SymVec(self.xs[i])
        return self.xs[i]

    def reshape(self, *shape):
        shape = shape[0] if len(shape) == 1 and isinstance(shape[0], tuple) else shape
        if tuple(shape) in ((-1, 1), (len(self.xs), 1)):
            return Column(self.xs)
        raise symx.Unsupported('reshape outside the model of position vectors')

    def sum(self, axis=None, **kw):
        if axis not in (None, 0) or kw or not self.xs:
            raise symx.Unsupported('vector.sum form')
        t = self.xs[0]
        for x in self.xs[1:]:
            t = t + x
        return t

    def __matmul__(self, o):
        if isinstance(o, FRows):            # weights @ positions
            if len(o.rows) != len(self.xs):
                raise ValueError('matmul: mismatch in its core dimension')
            return (o * Column(self.xs)).sum(axis=0)
        if isinstance(o, SymVec):
            return (self * o).sum()
        raise symx.Unsupported('matmul form')

    def dot(self, o):
        return self @ o


class _NpMeta(type):
    def __getattr__(cls, name):
        import numpy
        if name.startswith('_') or not hasattr(numpy, name):
            raise AttributeError(name)
        raise symx.Unsupported('numpy function outside the model of position vectors: np.%s' % name)


class FNp(metaclass=_NpMeta):
    newaxis = None
    float64 = float

    @staticmethod
    def zeros(n, *a, **kw):
        if isinstance(n, tuple) and len(n) == 2 and all(isinstance(k, int) for k in n):
            return FRows([[0] * n[1] for _ in range(n[0])])
        if isinstance(n, tuple) and len(n) == 1:
            n = n[0]
        if not isinstance(n, int):
            raise symx.Unsupported('np.zeros with a shape other than a length or (rows, columns)')
        return SymVec([0] * n)

    @staticmethod
    def fromiter(it, *a, **kw):
        return SymVec(list(it))

    @staticmethod
    def array(xs, *a, **kw):
        if isinstance(xs, (FRows, SymVec)):
            return xs.copy()
        xs = list(xs)
        if xs and isinstance(xs[0], (SymVec, list, tuple)):
            return FRows([list(r) for r in xs])
        return SymVec(xs)

    asarray = array

    @staticmethod
    def copy(x):
        return x.copy()

    @staticmethod
    def _coerce(x):
        return FNp.array(x) if isinstance(x, (list, tuple)) and x else x

    @staticmethod
    def sum(x, axis=None, **kw):
        x = FNp._coerce(x)
        if isinstance(x, (FRows, SymVec)):
            return x.sum(axis=axis, **kw)
        raise symx.Unsupported('np.sum form')

    @staticmethod
    def mean(x, axis=None, **kw):
        x = FNp._coerce(x)
        if isinstance(x, FRows):
            return x.mean(axis=axis, **kw)
        raise symx.Unsupported('np.mean form')

    @staticmethod
    def average(x, axis=None, weights=None, **kw):
        x = FNp._coerce(x)
        if isinstance(x, FRows) and axis == 0 and not kw:
            if weights is None:
                return x.mean(axis=0)
            w = weights if isinstance(weights, SymVec) else SymVec(list(weights))
            return (w @ x) / w.sum()
        raise symx.Unsupported('np.average form')

    @staticmethod
    def dot(a, b):
        a = a if isinstance(a, (SymVec, FRows)) else SymVec(list(a))
        if isinstance(a, SymVec):
            return a @ b
        raise symx.Unsupported('np.dot form')

    matmul = dot


def vec_list(v):
    if isinstance(v, SymVec):
        return list(v.xs)
    return list(v)


class C18(core.Prop):
    ID = 'C18'
    MODULES = loader.CORE + loader.RDKIT
    FUNCTIONS = ['networkx_to_rdkit', 'rdkit_to_networkx', 'embed_3d_via_rdkit', 'forward_map_molecule', 'embedd_cg_molecule_via_rdkit']
    STUBS = ['RDKit (Chem.RWMol/Atom/AddAtom/AddBond/GetMol/SanitizeMol/AddHs/GetAtoms/GetBonds/GetConformer, AllChem.EmbedMolecule/'
             'UFFOptimizeMolecule) replaced by a small model of its documented indexing: consecutive indices in insertion order, GetAtoms by '
             'index, SanitizeMol keeps indices, AddHs appends, a conformer gives atom i an arbitrary symbolic position P_i; chemistry '
             '(GetTotalNumHs, sanitisation, actual distances) is NOT modelled',
             'numpy position vectors replaced by a 3-vector over exact reals (SymVec)',
             'witness validation runs the unmodified cgsmiles.rdkit / cgsmiles.coordinates with the same RDKit model (not the compiled RDKit)']
    ASSUMPTIONS = ['RDKit places bonded atoms at bonding distance: "bonded atoms lie at bonding distance" is reduced to the index-mapping clause '
                   '(node n stores the position of the RDKit atom created for n)',
                   'real arithmetic instead of floats']
    OUTSIDE = ['hydrogen counts and sanitisation (RDKit chemistry is compiled C++)', 'float rounding', 'RDKit\'s embedding itself']
    BOUNDS = {
        'quick': 'graphs of 2-4 nodes (chain, star, ring) with node keys in every order of 3 key sets (0..n-1 permuted, non-contiguous), '
                 'symbolic bond orders 0-4 / aromatic, symbolic charges; forward map with 2 beads x <= 3 member atoms, symbolic weights and positions',
        'thorough': 'graphs of 2-6 nodes, all key orders <= 4 nodes and 12 orders for 5-6 nodes, AddHs appending 0-2 atoms; forward map with '
                    '2-3 beads x <= 4 member atoms incl. an atom shared by two beads',
    }
    LEVEL_TEXT = ('Bounded and REDUCED: with RDKit replaced by a model of its documented indexing, z3 decides for all positions, weights, bond '
                  'orders and charges that the position stored on node n is the position of the RDKit atom created for n (any node key order), '
                  'that elements/charges/orders survive the round trip with and without conformer, and that each bead is the weight-normalised '
                  'mean of exactly its own atoms (hence translation equivariant).')
    TECHNIQUE = 'symbolic execution of the bridge code against a stubbed RDKit with symbolic positions/weights; index-mapping and algebraic oracle; z3 (QF_NRA for the mean)'
    MAX_PATHS = 5000

    def setup_shadow(self, SH):
        symx.RT.call_hooks = []
        symx.RT.set_order_hook = None
        SH.rdkit.Chem, SH.rdkit.AllChem, SH.rdkit.np = FChem, FAllChem, FNp
        SH.coordinates.np = FNp

    def setup_orig(self, OR):
        OR.rdkit.Chem, OR.rdkit.AllChem, OR.rdkit.np = FChem, FAllChem, FNp
        OR.coordinates.np = FNp

    def shapes(self, tier):
        out = []
        q = tier == 'quick'
        graphs = {2: [[(0, 1)]], 3: [[(0, 1), (1, 2)], [(0, 1), (1, 2), (0, 2)]],
                  4: [[(0, 1), (1, 2), (2, 3)], [(0, 1), (0, 2), (0, 3)], [(0, 1), (1, 2), (2, 3), (0, 3)]]}
        if not q:
            graphs[5] = [[(0, 1), (1, 2), (2, 3), (3, 4)], [(0, 1), (1, 2), (2, 3), (3, 4), (0, 4)]]
            graphs[6] = [[(0, 1), (1, 2), (2, 3), (3, 4), (4, 5), (0, 5)]]
        for n, gl in graphs.items():
            perms = list(itertools.permutations(range(n)))
            if n >= 4 and q:
                perms = [perms[0], perms[-1], perms[len(perms) // 2], perms[5]]
            if n >= 5:
                perms = perms[::len(perms) // 12][:12]
            for edges in gl:
                for p in perms:
                    for keyset in ('perm', 'sparse'):
                        for extra_h in ((0,) if q else (0, 2)):
                            for mode in ('embed', 'roundtrip', 'roundtrip_conf'):
                                out.append({'mode': mode, 'n': n, 'edges': [list(e) for e in edges], 'perm': list(p),
                                            'keyset': keyset, 'extra_h': extra_h})
                                if mode == 'embed' and keyset == 'perm' and n >= 3 and extra_h == 0:
                                    # an explicitly written hydrogen that is not last in the graph's iteration order
                                    out.append({'mode': mode, 'n': n, 'edges': [list(e) for e in edges], 'perm': list(p),
                                                'keyset': keyset, 'extra_h': extra_h, 'h_second': True})
                                    # history: the same molecule, its nodes listed in the reverse order, was embedded before
                                    out.append({'mode': mode, 'n': n, 'edges': [list(e) for e in edges], 'perm': list(p),
                                                'keyset': keyset, 'extra_h': extra_h, 'before': 'same_reversed'})
        for nbeads, nmem in ((2, 2), (2, 3)) if q else ((2, 2), (2, 3), (3, 2), (2, 4)):
            for shared in (False, True):
                out.append({'mode': 'forward', 'nbeads': nbeads, 'nmem': nmem, 'shared': shared})
                # bead keys that are neither 0..n-1 nor increasing in iteration order
                out.append({'mode': 'forward', 'nbeads': nbeads, 'nmem': nmem, 'shared': shared, 'bkeys': 'descending'})
        return out

    # ------------------------------------------------------------------
    @staticmethod
    def _keys(shape):
        n = shape['n']
        if shape['keyset'] == 'perm':
            return [shape['perm'][i] for i in range(n)]
        return [3 + 4 * shape['perm'][i] for i in range(n)]

    def build(self, shape):
        if shape['mode'] == 'forward':
            nb, nm = shape['nbeads'], shape['nmem']
            natoms = nb * nm - (1 if shape['shared'] else 0)
            pos = [[sym_real('p%d%s' % (i, c)) for c in 'xyz'] for i in range(natoms)]
            w = []
            for i in range(natoms):            # one weight per atom, as on resolver output (a shared atom has one weight in both beads)
                x = sym_real('w%d' % i)
                symx.ENG.add(x.e >= 0)         # weight 0 is a legal annotation ([H;0]); the total weight of a bead is positive
                w.append(x)
            for b in range(nb):
                mem = self._members(shape, b)
                tot = w[mem[0]]
                for a in mem[1:]:
                    tot = tot + w[a]
                symx.ENG.add(tot.e > 0)
            return {'pos': pos, 'w': w}
        n = shape['n']
        # pairwise different: an RDKit atom is identified by its symbol; a hydrogen that is not the last node in iteration order
        el = (['C', 'H', 'O', 'S', 'F', 'Cl'] if shape.get('h_second') else ['C', 'N', 'O', 'S', 'F', 'Cl'])[:n]
        charges = [sym_int('q%d' % i, -1, 1) for i in range(n)]
        if shape['mode'] == 'embed' or (shape['n'] >= 4 and shape['keyset'] == 'sparse') or len(shape['edges']) > 3:
            orders = [1 + (k % 2) for k in range(len(shape['edges']))]     # bond orders play no role for the index mapping
        else:
            orders = [sym_int('o%d' % k, 0, 4) for k in range(len(shape['edges']))]
        npos = n + shape['extra_h']
        pos = [[sym_real('P%d%s' % (i, c)) for c in 'xyz'] for i in range(npos)]
        return {'el': el, 'charges': charges, 'orders': orders, 'pos': pos}

    @staticmethod
    def _members(shape, b):
        """atoms of bead b; with 'shared' the last slot of the last bead re-uses atom 0: one atom shared by two beads"""
        nb, nm = shape['nbeads'], shape['nmem']
        out = []
        for m in range(nm):
            atom = b * nm + m
            if shape['shared'] and atom == nb * nm - 1:
                atom = 0
            out.append(atom)
        return out

    def _graph(self, shape, inp):
        keys = self._keys(shape)
        g = nx.Graph()
        for i, k in enumerate(keys):          # insertion order = order of appearance i; keys permuted
            g.add_node(k, element=inp['el'][i], charge=inp['charges'][i])
        for (a, b), o in zip(shape['edges'], inp['orders']):
            g.add_edge(keys[a], keys[b], order=o)
        return g

    def execute(self, M, shape, inp):
        FChem.extra_h = shape.get('extra_h', 0)
        if shape['mode'] == 'forward':
            def run():
                nb, nm = shape['nbeads'], shape['nmem']
                # the two graphs as the resolver returns them: atoms carry weight and membership ('fragid', one entry per
                # bead they belong to), and each bead's 'graph' holds copies of its atoms' attributes
                aa = nx.Graph()
                fragid = {}
                bk = (lambda b: 10 * (nb - b) + 1) if shape.get('bkeys') else (lambda b: b)
                for b in range(nb):
                    for atom in self._members(shape, b):
                        fragid.setdefault(atom, []).append(bk(b))
                for i, p in enumerate(inp['pos']):
                    aa.add_node(10 + i, position=FNp.array(list(p)), weight=inp['w'][i], fragid=list(fragid[i]), element='C',
                                fragname='F%d' % (fragid[i][0] % 7), atomname='C%d' % i)
                cg = nx.Graph()
                for b in range(nb):
                    gf = nx.Graph()
                    mem = self._members(shape, b)
                    for atom in mem:
                        gf.add_node(10 + atom, **{k_: v for k_, v in aa.nodes[10 + atom].items() if k_ != 'position'})
                    for x, y in zip(mem, mem[1:]):
                        gf.add_edge(10 + x, 10 + y, order=1)
                        aa.add_edge(10 + x, 10 + y, order=1)
                    cg.add_node(bk(b), graph=gf, fragname='F%d' % (bk(b) % 7))
                    if b:
                        cg.add_edge(bk(b - 1), bk(b), order=1)
                M.coordinates.forward_map_molecule(cg, aa)
                return {b: (vec_list(cg.nodes[bk(b)]['position']) if 'position' in cg.nodes[bk(b)] else None) for b in range(nb)}
            return core.guard(run)
        g = self._graph(shape, inp)
        FAllChem.positions = [tuple(p) for p in inp['pos']]
        if shape['mode'] == 'embed':
            def run():
                if shape.get('before') == 'same_reversed':
                    g0 = nx.Graph()
                    for k in reversed(list(g.nodes)):
                        g0.add_node(k, **g.nodes[k])
                    g0.add_edges_from(g.edges(data=True))
                    M.rdkit.embed_3d_via_rdkit(g0)
                M.rdkit.embed_3d_via_rdkit(g)
                return {'pos': {n: (vec_list(d['position']) if 'position' in d else None) for n, d in g.nodes(data=True)},
                        'symbols': list(FAllChem.last_symbols or [])}
            return core.guard(run)

        def run():
            rd = M.rdkit.networkx_to_rdkit(g)
            if shape['mode'] == 'roundtrip_conf':
                FAllChem.EmbedMolecule(rd)
            back = M.rdkit.rdkit_to_networkx(rd)
            return {'nodes': {n: {k: (vec_list(v) if k == 'position' else v) for k, v in d.items()} for n, d in back.nodes(data=True)},
                    'edges': [[a, b, d.get('order')] for a, b, d in back.edges(data=True)]}
        return core.guard(run)

    def oracle(self, shape, inp, obs):
        cl = [('no_exception', obs[0] == 'ok')]
        if obs[0] != 'ok':
            return cl
        o = obs[1]
        if shape['mode'] == 'forward':
            nb, nm = shape['nbeads'], shape['nmem']
            for b in range(nb):
                sw = 0
                acc = [0, 0, 0]
                for atom in self._members(shape, b):
                    w = inp['w'][atom]
                    sw = sw + w
                    acc = [acc[c] + w * inp['pos'][atom][c] for c in range(3)]
                cl.append(('every_bead_has_a_position', o[b] is not None))
                if o[b] is None:
                    continue
                # bead * sum(w) == sum(w_i p_i)   (multiplied out: no division in the query)
                cl.append(('bead_is_weight_normalised_mean', band(*[gg.val_eq(o[b][c] * sw, acc[c]) for c in range(3)])))
            return cl
        keys = self._keys(shape)
        if shape['mode'] == 'embed':
            syms = o['symbols']
            for i, kk in enumerate(keys):
                got = o['pos'].get(kk)
                cl.append(('every_node_has_a_position', got is not None))
                # the node's own atom is the RDKit atom that carries the node's (unique) element symbol
                own = syms.index(inp['el'][i]) if inp['el'][i] in syms else None
                cl.append(('an_rdkit_atom_was_created_for_the_node', own is not None))
                if got is not None and own is not None:
                    cl.append(('node_stores_position_of_its_own_atom', band(*[gg.val_eq(got[c], inp['pos'][own][c]) for c in range(3)])))
            cl.append(('no_foreign_nodes', sorted(o['pos'].keys()) == sorted(keys)))
            return cl
        n = shape['n']
        cl.append(('node_count', len(o['nodes']) == n))
        if len(o['nodes']) != n:
            return cl
        # the returned graph is numbered by RDKit atom index: compare up to isomorphism (elements, charges, orders)
        g = self._graph(shape, inp)
        back = nx.Graph()
        for k, d in o['nodes'].items():
            back.add_node(k, **d)
        for a2, b2, od in o['edges']:
            back.add_edge(a2, b2, order=od)
        cl.append(('chemistry_preserved_up_to_isomorphism', gg.iso_clause(
            g, back, lambda x, y: band(x.get('element') == y.get('element'), gg.val_eq(x.get('charge'), y.get('charge'))),
            lambda x, y: gg.val_eq(x.get('order'), y.get('order')))))
        if shape['mode'] == 'roundtrip_conf':
            for j in range(n):
                p = o['nodes'].get(j, {}).get('position')
                cl.append(('conformer_position_on_own_atom', p is not None and band(*[gg.val_eq(p[c], inp['pos'][j][c]) for c in range(3)])))
        return cl

    def sample(self, shape, cinp):
        return {'shape': {k: shape[k] for k in shape if k != 'edges'}, 'input': {k: str(v)[:120] for k, v in cinp.items()}}

    MUTANTS = {
        'bond_endpoints_by_key': {'rdkit': ("        mol.AddBond(node_to_idx[u], node_to_idx[v], bt)", "        mol.AddBond(u if u in node_to_idx.values() else node_to_idx[u], node_to_idx[v], bt)")},
        'charge_dropped': {'rdkit': ("        atom.SetFormalCharge(props.get('charge', 0))\n", "")},
        'normalised_by_count': {'coordinates': ("        cg_pos = cg_pos / sum(weights.values())", "        cg_pos = cg_pos / len(weights)")},
        'unweighted_mean': {'coordinates': ("            cg_pos += aa_mol.nodes[aa_node]['position']*weight", "            cg_pos += aa_mol.nodes[aa_node]['position']")},
    }


PROP = C18()

# shape families added after the first complete pass (DESIGN 8.6-8.11); appended to the bounds written into the evidence
BOUNDS_ADDED = '; weights >= 0 with positive total; embed shapes with a hydrogen as second node; forward-map inputs carry weight / fragid on the atoms and attribute copies in the bead graphs, as resolver output does; bead keys 0..n-1 and descending non-contiguous; embed history (same molecule embedded before with nodes reversed); numpy stand-in covers vectorised forward maps (rows, columns, sum/mean/average/matmul)'
PROP.BOUNDS = {k: v + BOUNDS_ADDED for k, v in PROP.BOUNDS.items()}
