"""C11 -- virtual nodes and zero-order edges are inert."""
import copy

from .. import core, gen_graph as gg, pipeline as pl, symx
from ..symx import SymStr, band, bor, cat, sym_alnum, sym_char
from .c01 import install_summaries

DEFS = {'A': '[$]CC[$][$]', 'B': '[$]O[$][$]'}
DEFS_CG = {'A': '[$][#P][#Q][$][$]', 'B': '[$][#R][$][$]'}
THIRD = '{#P=[$]C[$][$][$],#Q=[$]C[$][$][$],#R=[$]N[$][$]}'      # a third resolution under DEFS_CG


def insertions(base, vid):
    """all ways of inserting one extra node (hole id vid) into a no-'))' chain AST:
    as new first element, after every element as chain continuation (before the old continuation,
    i.e. in the middle or at the end), as a branch of every element, and ring-bonded to one element
    while chained at the end."""
    out = []
    els = list(gg.elems(base['chain']))
    vel = {'v': vid, 'ord': 'ov%d' % vid, 'ann': 'none', 'nl': 1, 'mult': None, 'br': []}
    # first position: V followed by the old chain (old first element gets an order hole)
    s = copy.deepcopy(base)
    first = copy.deepcopy(vel)
    first['ord'] = None
    s['chain'][0]['ord'] = 'ov%d' % vid
    s['chain'].insert(0, first)
    s['_where'] = 'first'
    out.append(s)
    # branch of every element
    for k in range(len(els)):
        s = copy.deepcopy(base)
        tgt = list(gg.elems(s['chain']))[k]
        tgt['br'].insert(0, {'chain': [copy.deepcopy(vel)], 'mult': None, 'pre': None})
        s = gg.no_double_close(s)
        s['_where'] = 'branch%d' % k
        out.append(s)
    # chain end of the top-level chain (last position)
    s = copy.deepcopy(base)
    s['chain'].append(copy.deepcopy(vel))
    s['_where'] = 'last'
    out.append(s)
    # middle of the top-level chain: V between element 0 and the rest is a *different graph*
    # (it would connect through V), so the middle position is realised as a branch (above)
    # ring-bonded: V chained last with order hole, plus a ring bond with order hole to element 0
    if len(els) >= 2 and base['chain'][-1]['v'] != els[0]['v']:
        s = copy.deepcopy(base)
        s['chain'].append(copy.deepcopy(vel))
        s['rings'] = list(s['rings']) + [[els[0]['v'], vid, 'd', 's']]
        s['_where'] = 'ring'
        out.append(s)
    return out


class C11(core.Prop):
    ID = 'C11'
    FUNCTIONS = ['resolve_disconnected_molecule', 'merge_graphs', 'annotate_fragments', 'edges_from_bonding_descrpt', 'resolve',
                 'sort_nodes_by_attr', 'read_cgsmiles', 'set_atom_names_atomistic']
    STUBS = ['re matcher (symx)', 'compatible(): summarised', 'numpy comparison of the order list: native on symbolic ints (forks)']
    ASSUMPTIONS = ['the inserted node\'s name is a symbolic alnum character different from every defined name (equal = a real node: C02)',
                   'bond-order symbols on every edge incident to an inserted node are symbolic; real edges keep their written order']
    OUTSIDE = ['virtual nodes inside multiplied units', 'more than two inserted nodes (quick) / three (thorough)']
    BOUNDS = {
        'quick': 'base graphs <= 3 real nodes (chains, branch, ring) over two atomistic and two coarse definitions x one inserted node at every '
                 'position (first, branch of every node, last, ring-bonded) with all incident order symbols symbolic over . - = ; plus a zero-order '
                 'ring bond between two real nodes',
        'thorough': 'base graphs <= 4 real nodes x one and two inserted nodes at every position pair, order symbols over . - = # $',
    }
    LEVEL_TEXT = ('Bounded: for every insertion position z3 decides over all incident order symbols and names that the string is rejected '
                  '(SyntaxError) iff some incident order is non-zero, and otherwise that fine graph and every real coarse node\'s atom set are '
                  'identical to those of the string without the insertion (metamorphic, same path).')
    TECHNIQUE = 'symbolic execution of the resolver with symbolic order symbols/names on inserted nodes; metamorphic oracle; z3'
    MAX_PATHS = 6000

    def setup_shadow(self, SH):
        install_summaries(SH)

    def shapes(self, tier):
        out = []
        nmax = 3 if tier == 'quick' else 4
        syms = '.-=' if tier == 'quick' else gg.SYMBOLS
        bases = []
        for n in range(1, nmax + 1):
            for base in gg.tree_shapes(n, max_nest=1):
                s = gg.no_double_close(base)
                par = s.pop('parent', None)
                bases.append(s)
                if n >= 3:
                    for (i, j) in gg.ring_candidates(par)[:1]:
                        t = copy.deepcopy(s)
                        t['rings'] = [[i, j, 'd', 'n']]
                        bases.append(t)
        for aa in (True, False):
            for bi, base in enumerate(bases):
                nreal = len(list(gg.elems(base['chain'])))
                names = [('A', 'B')[(i + bi) % 2] for i in range(nreal)]
                for s in insertions(base, 100):
                    out.append({'g': s, 'base': base, 'names': names, 'aa': aa, 'syms': syms, 'virt': [100]})
                    if tier == 'thorough' and nreal <= 3:
                        for s2 in insertions({k: v for k, v in s.items() if k != '_where'}, 101):
                            out.append({'g': s2, 'base': base, 'names': names, 'aa': aa, 'syms': '.-=', 'virt': [100, 101]})
                # zero-order ring bond between two real nodes
                if nreal >= 3 and not base['rings']:
                    els = [e['v'] for e in gg.elems(base['chain'])]
                    dummy = {'name': {str(v): 'X' for v in els}, 'ann': {}, 'ord': {}, 'rord': [], 'rmark': []}
                    _n, ed = gg.denote(base, dummy)
                    free = [(i, j) for i in range(nreal) for j in range(i + 1, nreal) if frozenset((i, j)) not in ed]
                    for (i, j) in free[:1]:
                        t = copy.deepcopy(base)
                        t['rings'] = [[els[i], els[j], 'd', 's']]
                        out.append({'g': t, 'base': base, 'names': names, 'aa': aa, 'syms': syms, 'virt': [], 'zero_ring': True})
                # ... and the zero-order ring bond opened on a node that opens a real ring bond right after it ('.12')
                if nreal >= 3 and len(base['rings']) == 1:
                    a, b = base['rings'][0][0], base['rings'][0][1]
                    els = [e['v'] for e in gg.elems(base['chain'])]
                    dummy = {'name': {str(v): 'X' for v in els}, 'ann': {}, 'ord': {}, 'rord': [None], 'rmark': ['1']}
                    _n, ed = gg.denote(base, dummy)
                    idx = {v: i for i, v in enumerate(els)}
                    others = [v for v in els if v not in (a, b) and frozenset((idx[a], idx[v])) not in ed]
                    for c in others[:1]:
                        t = copy.deepcopy(base)
                        t['rings'] = [[a, c, 'd', 's'], [a, b, 'd', 'n']]
                        out.append({'g': t, 'base': base, 'names': names, 'aa': aa, 'syms': syms, 'virt': [], 'zero_ring': True, 'zero_first': True})
        # a four-node chain whose first node opens a zero-order ring bond and, right after it, a real one ('.12')
        for aa in (True, False):
            ch = copy.deepcopy([t_ for t_ in gg.tree_shapes(4, max_nest=1) if len(t_['chain']) == 4][0])
            ch.pop('parent', None)
            els = [e['v'] for e in gg.elems(ch['chain'])]
            if len(ch['chain']) == 4:
                base4 = copy.deepcopy(ch)
                base4['rings'] = [[els[0], els[2], 'd', 'n']]
                t = copy.deepcopy(ch)
                t['rings'] = [[els[0], els[3], 'd', 's'], [els[0], els[2], 'd', 'n']]
                out.append({'g': t, 'base': base4, 'names': ['A', 'B', 'A', 'B'], 'aa': aa, 'syms': syms, 'virt': [], 'zero_ring': True,
                            'zero_first': True})
        # more virtual than real nodes, nine nodes in all, the last real node at key 8 (a ring of four real nodes after five
        # virtual ones): sizes at which views over node *sets* stop iterating in key order
        for aa in (True, False):
            ch = copy.deepcopy([t_ for t_ in gg.tree_shapes(4, max_nest=1) if len(t_['chain']) == 4][0])
            ch.pop('parent', None)
            els = [e['v'] for e in gg.elems(ch['chain'])]
            base9 = copy.deepcopy(ch)
            base9['rings'] = [[els[0], els[3], 'd', 'n']]
            g9 = copy.deepcopy(base9)
            virt = [100 + k for k in range(5)]
            g9['chain'][0]['ord'] = 'o%d' % els[0]
            g9['chain'] = [{'v': v, 'ord': (None if k == 0 else 'o%d' % v), 'ann': 'none', 'nl': 1, 'mult': None, 'br': []}
                           for k, v in enumerate(virt)] + g9['chain']
            out.append({'g': g9, 'base': base9, 'names': ['A', 'B', 'A', 'B'], 'aa': aa, 'syms': '.-', 'virt': virt,
                        'zero_ord': ['o%d' % v for v in virt[1:]]})
        # the same strings handed over as a base graph (MoleculeResolver.from_graph); every third shape
        for s in list(out)[::3]:
            out.append(dict(s, entry='graph'))
        # history: the same base graph object was resolved before with a fragment set in which the (now) virtual nodes
        # had a fragment of their own
        for s in [x for x in list(out) if x['virt'] and not x.get('entry')][1::3]:
            out.append(dict(s, entry='graph_resolved_before'))
        # the same base graphs over three resolutions (beads, then atoms): whatever the first step notes about the virtual
        # node is still there when the second step numbers its own nodes from 0
        for s in [x for x in list(out) if not x['aa'] and x['virt'] and not x.get('entry') and len(x['virt']) == 1][::(2 if tier == 'quick' else 1)]:
            out.append(dict(s, third=True))
        for s in out:
            s['g'].pop('_where', None)
        return out

    def build(self, shape):
        g = shape['g']
        rec = gg.make_holes(g, symbols=shape['syms'])
        for oid in shape.get('zero_ord', []):
            rec['ord'][oid] = '.'          # links between the virtual nodes themselves: written as zero-order bonds
        real = [e['v'] for e in gg.elems(shape['base']['chain'])]
        for v, nm in zip(real, shape['names']):
            rec['name'][str(v)] = nm
        for v in shape['virt']:
            for nm in set(shape['names']) | {'A', 'B'}:
                symx.ENG.assume(rec['name'][str(v)] != nm)
        text, conds = gg.render(g, rec)
        for c in conds:
            symx.ENG.assume(c)
        rec0 = {'name': {str(v): nm for v, nm in zip(real, shape['names'])}, 'ann': {}, 'ord': {}, 'rord': [None] * len(shape['base']['rings']),
                'rmark': [str(k + 1) for k in range(len(shape['base']['rings']))]}
        text0, _ = gg.render(shape['base'], rec0)
        defs = DEFS if shape['aa'] else DEFS_CG
        ftext = '{' + ','.join('#%s=%s' % (k, v) for k, v in defs.items()) + '}'
        if shape.get('third'):
            ftext += '.' + THIRD
        vdefs = cat(*[cat(',#', rec['name'][str(v)], '=', ('[$]N[$][$]' if shape['aa'] else '[$][#Z][$][$]')) for v in shape['virt']])
        return {'text': cat('{', text, '}.', ftext), 'ref': cat('{', text0, '}.', ftext), 'holes': rec,
                'full': cat(ftext[:-1], vdefs, '}')}

    def execute(self, M, shape, inp):
        if shape.get('entry') in ('graph', 'graph_resolved_before'):
            def run():
                base, rest = pl.split_layers(inp['text'])
                mg = M.read_cgsmiles.read_cgsmiles(base)
                if shape['entry'] == 'graph_resolved_before':
                    core.guard(lambda: M.resolve.MoleculeResolver.from_graph(inp['full'], mg, last_all_atom=shape['aa']).resolve())
                res = M.resolve.MoleculeResolver.from_graph(rest, mg, last_all_atom=shape['aa'])
                meta, mol = res.resolve()
                return {'meta': pl.meta_data(meta), 'mol': pl.graph_data(mol)}
            return [core.guard(run), core.guard(pl.run_resolver, M, inp['ref'], last_all_atom=shape['aa'])]
        aa = shape['aa'] or bool(shape.get('third'))
        return [core.guard(pl.run_resolver, M, inp['text'], last_all_atom=aa),
                core.guard(pl.run_resolver, M, inp['ref'], last_all_atom=aa)]

    def oracle(self, shape, inp, obs):
        got, ref = obs
        g = shape['g']
        nodes, edges = gg.denote(g, inp['holes'])
        # which denoted node indices are the inserted ones
        order = [e['v'] for e in self._appearance(g)]
        virt_idx = [i for i, v in enumerate(order) if v in shape['virt']]
        incident = [o for e, o in edges.items() if set(e) & set(virt_idx)]
        nonzero = bor(*[o != 0 for o in incident])
        cl = [('reference_accepted', ref[0] == 'ok')]
        if ref[0] != 'ok':
            return cl
        if shape.get('zero_ring'):
            ro = gg.sym2ord(inp['holes']['rord'][0 if shape.get('zero_first') else -1])
            if ro != 0:             # forks; only the zero-order ring bond is the subject here
                raise symx.PathAbort()
        if nonzero:                 # forks over the order symbols
            return cl + [('fragmentless_node_with_bond_rejected', got == ('exc', 'SyntaxError'))]
        cl.append(('accepted', got[0] == 'ok'))
        if got[0] != 'ok':
            return cl
        gm_, rm_ = got[1]['mol'], ref[1]['mol']
        # key map: real coarse nodes keep their relative order
        real_keys = [i for i in range(len(order)) if i not in virt_idx]
        kmap = {k: j for j, k in enumerate(real_keys)}
        if shape.get('third'):
            # the coarse graph of the last step is the bead graph: the same keys with and without the inserted node
            kmap = {k: k for k in ref[1]['meta']['nodes']}
            virt_idx = []
        same_nodes = sorted(gm_['nodes']) == sorted(rm_['nodes'])
        cl.append(('fine_node_keys_unchanged', same_nodes))
        if same_nodes:
            keys = ('element', 'charge', 'atomname', 'fragname', 'weight')
            cl.append(('fine_node_attributes_unchanged', all(
                all(gm_['nodes'][n].get(k) == rm_['nodes'][n].get(k) for k in keys) for n in gm_['nodes'])))
            cl.append(('fine_membership_unchanged', all(
                [kmap.get(f, -1) for f in gm_['nodes'][n].get('fragid', [])] == rm_['nodes'][n].get('fragid') for n in gm_['nodes'])))
            if shape.get('third'):
                cl.append(('coarse_node_keys_unchanged', sorted(got[1]['meta']['nodes']) == sorted(ref[1]['meta']['nodes'])))
            e1 = sorted([sorted((a, b)), o] for a, b, o, _ in gm_['edges'])
            e2 = sorted([sorted((a, b)), o] for a, b, o, _ in rm_['edges'])
            cl.append(('fine_bonds_unchanged', e1 == e2))
        for k, j in kmap.items():
            a = got[1]['meta']['nodes'].get(k, {})
            b = ref[1]['meta']['nodes'].get(j, {})
            cl.append(('coarse_node_keeps_its_atoms', a.get('_members') == b.get('_members')))
        for k in virt_idx:
            cl.append(('virtual_node_has_no_atoms', not got[1]['meta']['nodes'].get(k, {}).get('_members')))
        return cl

    @staticmethod
    def _appearance(g):
        return list(gg.elems(g['chain']))

    def sample(self, shape, cinp):
        return [cinp['text'], cinp['ref']]

    MUTANTS = {
        'virtual_if_any_zero': {'resolve': ("if not all(np.array(orders) == 0):", "if orders and not any(np.array(orders) == 0):")},
        'zero_order_makes_bond': {'resolve': ("for _ in range(0, self.meta_graph.edges[(prev_node, node)][\"order\"]):",
                                             "for _ in range(0, max(1, self.meta_graph.edges[(prev_node, node)][\"order\"])):")},
    }


PROP = C11()

# shape families added after the first complete pass (DESIGN 8.6-8.11); appended to the bounds written into the evidence
BOUNDS_ADDED = "; plus: every third shape through from_graph, base graph resolved before (virtual node had a fragment then), '.12' ring markers, five virtual nodes in front of a four-bead ring, three-resolution strings (virtual node in the base graph, beads, atoms), three-resolution strings (virtual node in the base graph, beads, atoms)"
PROP.BOUNDS = {k: v + BOUNDS_ADDED for k, v in PROP.BOUNDS.items()}
