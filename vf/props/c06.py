"""C06 -- layered resolutions compose."""
import itertools

from .. import core, gen_graph as gg, gen_mol as gm, pipeline as pl, symx
from ..symx import SymStr, band, cat, sym_alnum, sym_char
from .c01 import install_summaries, OPT_VARIANTS
from .c12 import deep_eq

ORDER_SYM = {1: '', 2: '=', 3: '#', 4: '$'}


def connected_groupings(n, edges):
    """set partitions of range(n) into connected groups (w.r.t. edges), excluding all-singletons"""
    out = []

    def parts(items):
        if not items:
            yield []
            return
        first, rest = items[0], items[1:]
        for p in parts(rest):
            for i in range(len(p)):
                yield p[:i] + [[first] + p[i]] + p[i + 1:]
            yield [[first]] + p

    def connected(g):
        g = set(g)
        seen = {min(g)}
        stack = [min(g)]
        while stack:
            a = stack.pop()
            for (x, y) in edges:
                for u, v in ((x, y), (y, x)):
                    if u == a and v in g and v not in seen:
                        seen.add(v)
                        stack.append(v)
        return seen == g
    for p in parts(list(range(n))):
        if all(len(g) == 1 for g in p):
            continue
        if all(connected(g) for g in p):
            out.append(sorted(sorted(g) for g in p))
    return out


def coarsen(names, edges, groups, level, prefix):
    """one intermediate level: definitions of the groups over the finer nodes + the coarser graph.
    names: list of node names; edges: {(a, b): order}; groups: list of lists of node indices.
    -> (definition texts per group (list of item lists), new names, new edges, label holes)"""
    where = {a: gi for gi, g in enumerate(groups) for a in g}
    crossing = [(a, b) for (a, b) in sorted(edges) if where[a] != where[b]]
    desc_on = {}
    labels = []
    for ci, (a, b) in enumerate(crossing):
        lab = SymStr([sym_alnum("%s_x%d" % (prefix, ci))])
        k = sym_char("%s_xk%d" % (prefix, ci), allowed='$<>')
        labels.append(lab)
        osym = ORDER_SYM[edges[(a, b)]]
        desc_on.setdefault(a, []).append(cat(osym, '[', [k], lab, ']'))
        desc_on.setdefault(b, []).append(cat(osym, '[', [pl.complement_char(k)], lab, ']'))
    for x, y in itertools.combinations(labels, 2):
        symx.ENG.assume(x != y)
    defs = []
    for gi, g in enumerate(groups):
        local = {a: i for i, a in enumerate(g)}
        sub = {(local[a], local[b]): o for (a, b), o in edges.items() if a in local and b in local}
        pieces, _seen = pl.base_graph_text(len(g), sub, root=0)
        items = []
        for kind, v in pieces:
            if kind == 'node':
                a = g[v]
                items.append('[#%s]' % names[a])
                for d in desc_on.get(a, []):
                    items.append(d)
            else:
                items.append(v)
        defs.append(cat(*items))
    new_names = ['%s%d' % (level, gi) for gi in range(len(groups))]
    new_edges = {}
    for (a, b) in crossing:
        key = tuple(sorted((where[a], where[b])))
        new_edges[key] = new_edges.get(key, 0) + 1
    return defs, new_names, new_edges


# hand-written layered strings with their flattened two-level form ('@l', '@m': label holes; same atoms in both)
TEMPLATES = [
    # descriptor written after two sibling branches in an intermediate fragment
    ('{[#A0][#B0]}.{#A0=[#a]([#b])([#c])[>@l],#B0=[<@l][#d]}.{#a=[$]C([$])([$])[$],#b=[$]O,#c=[$]N,#d=[$]S}',
     '{[#a]([#b])([#c])[#d]}.{#a=[$]C([$])([$])[$],#b=[$]O,#c=[$]N,#d=[$]S}'),
    # shared (squashed) nodes on two consecutive levels
    ('{[#P][#Q]}.{#P=[#a][#b][!@l],#Q=[!@l][#b][#c]}.{#a=OC[!@m],#b=[!@m]CC[$],#c=[$]N}',
     '{[#a][#b][#c]}.{#a=OC[!@m],#b=[!@m]CC[$],#c=[$]N}'),
    ('{[#P][#Q][#R]}.{#P=[#a][#b][!@l],#Q=[!@l][#b][#c][>],#R=[<][#d]}.{#a=OC[!@m],#b=[!@m]CC[$],#c=[$]N[$],#d=[$]C}',
     '{[#a][#b][#c][#d]}.{#a=OC[!@m],#b=[!@m]CC[$],#c=[$]N[$],#d=[$]C}'),
    # bond order carried by a descriptor pair at the intermediate level, ring bond inside an intermediate fragment
    ('{[#P][#Q]}.{#P=[#a]=[>@l],#Q=[<@l]=[#b]}.{#a=[$]CC[$],#b=[$]CC[$]}', '{[#a]=[#b]}.{#a=[$]CC[$],#b=[$]CC[$]}'),
    ('{[#P][#Q]}.{#P=[#a]1[#b][#c]1[$@l],#Q=[$@l][#d]}.{#a=[$]C[$],#b=[$]C[$],#c=[$]C([$])[$],#d=[$]O}',
     '{[#a]1[#b][#c]1[#d]}.{#a=[$]C[$],#b=[$]C[$],#c=[$]C([$])[$],#d=[$]O}'),
    # shared nodes at the intermediate level only (nothing shared at the last level)
    ('{[#P][#Q]}.{#P=[#a][#b][!@l],#Q=[!@l][#b][#c]}.{#a=OC[$],#b=[$]CC[$],#c=[$]N}', '{[#a][#b][#c]}.{#a=OC[$],#b=[$]CC[$],#c=[$]N}'),
    ('{[#P][#Q]}.{#P=[#a][#b][#e][!@l],#Q=[!@l][#e][#c]}.{#a=OC[$],#b=[$]CC[$],#c=[$]N,#e=[$]S[$]}',
     '{[#a][#b][#e][#c]}.{#a=OC[$],#b=[$]CC[$],#c=[$]N,#e=[$]S[$]}'),
    # directed descriptors with the '<' half listed first in the base graph (index 9; also run under legacy=False)
    ('{[#Y][#X]}.{#X=[#a][#b][>@l],#Y=[<@l][#c][#d]}.{#a=C[$],#b=[$]C[$],#c=[$]N[$],#d=[$]O}',
     '{[#a][#b][#c][#d]}.{#a=C[$],#b=[$]C[$],#c=[$]N[$],#d=[$]O}'),
    # a fragment name used at two levels (each level has its own name space)
    ('{[#A][#B]}.{#A=[#P][#A][>@l],#B=[<@l][#B][#Q]}.{#P=O[$],#A=[$]C[$],#B=[$]N[$],#Q=[$]S}',
     '{[#P][#A][#B][#Q]}.{#P=O[$],#A=[$]C[$],#B=[$]N[$],#Q=[$]S}'),
]


def fill_labels(text, holes):
    parts = []
    i = 0
    while i < len(text):
        if text[i] == '@':
            parts.append(holes[text[i + 1]])
            i += 2
        else:
            parts.append(text[i])
            i += 1
    return cat(*parts)


class C06(core.Prop):
    ID = 'C06'
    FUNCTIONS = ['resolve', 'resolve_iter', 'resolve_all', 'read_fragment_strings', 'read_fragment_cgsmiles', 'from_string',
                 'resolve_disconnected_molecule', 'edges_from_bonding_descrpt', 'annotate_fragments', 'sort_nodes_by_attr',
                 'read_fragments', 'strip_bonding_descriptors', 'read_cgsmiles', 'merge_graphs']
    STUBS = ['re matcher (symx)', 'compatible(): summarised', 'pysmiles/networkx native']
    ASSUMPTIONS = ['the fragmented molecule is a C01 case; intermediate nodes group connected sets of the finer level\'s nodes; every crossing edge '
                   'is written as a descriptor pair carrying the edge order, with symbolic kind and a symbolic label (pairwise distinct per level)',
                   'the coarser edge order is the number of crossing finer edges']
    OUTSIDE = ['more than two intermediate levels', 'intermediate levels with shared nodes or virtual nodes']
    BOUNDS = {
        'quick': 'C01 quick cases with 3 fragments (first rendering): every connected grouping into one intermediate level; atomistic last level',
        'thorough': 'C01 thorough cases with 3-4 fragments (<= 7 heavy atoms): every connected grouping into one intermediate level and, for 4 '
                    'fragments, a second intermediate level; atomistic last level and coarse last level (fragment level as final)',
    }
    LEVEL_TEXT = ('Bounded: per molecule x partition x hierarchical grouping z3 explores all descriptor kinds/labels at every level through the '
                  'real resolver and decides that the k-level string ends in a molecule isomorphic to the two-level string\'s and to the spec '
                  'molecule, that each step\'s coarse graph is the previous step\'s fine graph, that the mapping relation holds at every step, '
                  'and that resolve() x k, resolve_iter() and resolve_all() agree.')
    TECHNIQUE = 'symbolic execution of the multi-level resolver with symbolic descriptors at every level; metamorphic + by-construction oracle; z3'
    MAX_PATHS = 3000

    def setup_shadow(self, SH):
        install_summaries(SH)

    def shapes(self, tier):
        from .c01 import PROP as C01P
        out = []
        q = tier == 'quick'
        mc = [s for s in C01P.shapes(tier) if s['opts'] == OPT_VARIANTS[0] and len(s['blocks']) >= 3]
        if not q:
            mc = [s for s in mc if len(gm.parse_smiles(s['smiles']).atoms) <= 7]
        for s in mc:
            n = len(s['blocks'])
            where = {a: bi for bi, b in enumerate(s['blocks']) for a in b}
            edges = sorted({tuple(sorted((where[i], where[j]))) for i, j in s['cut']})
            for grp in connected_groupings(n, edges):
                out.append({'case': s, 'groups': [grp], 'aa': True})
                if not q:
                    out.append({'case': s, 'groups': [grp], 'aa': False})
                    if len(grp) >= 3:
                        # second intermediate level over the groups
                        gedges = sorted({tuple(sorted((self._gi(grp, a), self._gi(grp, b)))) for a, b in edges
                                         if self._gi(grp, a) != self._gi(grp, b)})
                        for grp2 in connected_groupings(len(grp), gedges)[:2]:
                            out.append({'case': s, 'groups': [grp, grp2], 'aa': True})
        for i in range(len(TEMPLATES)):
            out.append({'mode': 'tmpl', 'idx': i, 'aa': True})
            if '<' in TEMPLATES[i][0] and '@m' not in TEMPLATES[i][0]:
                # the label-insensitive convention (legacy=False): one descriptor pair per edge, so nothing becomes ambiguous
                out.append({'mode': 'tmpl', 'idx': i, 'aa': True, 'legacy': False})
        return out

    @staticmethod
    def _gi(grp, a):
        for gi, g in enumerate(grp):
            if a in g:
                return gi

    def build(self, shape):
        if shape.get('mode') == 'tmpl':
            layered, flat = TEMPLATES[shape['idx']]
            holes = {'l': SymStr([sym_alnum('tl')]), 'm': SymStr([sym_alnum('tm')])}
            return {'text': fill_labels(layered, holes), 'two_level': fill_labels(flat, holes), 'nlevels': layered.count('}.{')}
        case = shape['case']
        r = pl.render_case(case)
        names = list(r.names)
        edges = {k: v for k, v in r.pair_count.items()}
        levels = []
        for li, grp in enumerate(shape['groups']):
            defs, names2, edges2 = coarsen(names, edges, grp, 'GH'[li], 'lv%d' % li)
            levels.append(cat('{', *[cat('' if i == 0 else ',', '#', names2[i], '=', d) for i, d in enumerate(defs)], '}'))
            names, edges = names2, edges2
        pieces, _ = pl.base_graph_text(len(names), edges, root=0)
        base = cat('{', *[('[#%s]' % names[v]) if k == 'node' else v for k, v in pieces], '}')
        blocks = [base] + list(reversed(levels))
        if shape['aa']:
            blocks.append(r.frag_text)
        text = cat(*[x for i, b in enumerate(blocks) for x in (('.', b) if i else (b,))])
        return {'text': text, 'two_level': r.text, 'nlevels': len(blocks) - 1}

    def execute(self, M, shape, inp):
        R = M.resolve.MoleculeResolver
        aa = shape['aa']
        lg = shape.get('legacy', True)

        def snapshot(meta, mol):
            return {'meta': pl.meta_data(meta), 'mol': pl.graph_data(mol)}

        def run():
            steps = []
            r1 = R.from_string(inp['text'], last_all_atom=aa, legacy=lg)
            for _ in range(inp['nlevels']):
                steps.append(snapshot(*r1.resolve()))
            it = [snapshot(m, g) for m, g in R.from_string(inp['text'], last_all_atom=aa, legacy=lg).resolve_iter()]
            al = snapshot(*R.from_string(inp['text'], last_all_atom=aa, legacy=lg).resolve_all())
            two = snapshot(*R.from_string(inp['two_level'], legacy=lg).resolve()) if aa else None
            return {'steps': steps, 'iter': it, 'all': al, 'two': two}
        return core.guard(run)

    def oracle(self, shape, inp, obs):
        if obs[0] != 'ok':
            return [('accepted', False)]
        o = obs[1]
        cl = [('accepted', True)]
        steps = o['steps']
        cl.append(('drivers_agree_iter', deep_eq(steps, o['iter'])))
        cl.append(('drivers_agree_all', deep_eq(steps[-1], o['all'])))
        for k in range(1, len(steps)):
            prev, cur = steps[k - 1]['mol'], steps[k]['meta']
            same_keys = sorted(prev['nodes']) == sorted(cur['nodes'])
            cl.append(('coarse_graph_is_previous_fine_graph_nodes', same_keys))
            if same_keys:
                cl.append(('coarse_names_are_previous_atomnames', band(*[
                    cur['nodes'][n].get('fragname') == prev['nodes'][n].get('atomname') for n in prev['nodes']])))
                e1 = sorted([sorted((a, b)), o2] for a, b, o2, _ in prev['edges'])
                e2 = sorted([sorted((a, b)), o2] for a, b, o2 in cur['edges'])
                cl.append(('coarse_edges_are_previous_fine_edges', deep_eq(e1, e2)))
        for st in steps:
            nodes = st['mol']['nodes']
            member_of = {n: [] for n in nodes}
            for k2, d in st['meta']['nodes'].items():
                for n in d.get('_members', []):
                    member_of.setdefault(n, []).append(k2)
            cl.append(('mapping_relation_each_step', all(sorted(set(nodes[n].get('fragid', []))) == sorted(member_of[n]) and member_of[n]
                                                       for n in nodes)))
            # the graph stored on a coarse node is the sub-graph its fine nodes induce
            fine_edges = {frozenset((a, b)) for a, b, _o, _bd in st['mol']['edges']}
            cl.append(('member_graph_is_induced_subgraph_each_step', all(
                {frozenset(e) for e in d.get('_member_edges', [])} == {e for e in fine_edges if e <= set(d.get('_members', []))}
                for d in st['meta']['nodes'].values() if '_members' in d)))
        if shape.get('mode') == 'tmpl':
            g1, h1, _ = pl.observed_heavy_graph(steps[-1]['mol'])
            g2, h2, _ = pl.observed_heavy_graph(o['two']['mol'])
            cl.append(('same_as_two_level_string', gg.iso_clause(g1, g2, pl.node_eq, pl.edge_eq)))
            return cl
        if shape['aa']:
            mol = gm.parse_smiles(shape['case']['smiles'])
            spec = pl.spec_graph(mol)
            g1, h1, _ = pl.observed_heavy_graph(steps[-1]['mol'])
            g2, h2, _ = pl.observed_heavy_graph(o['two']['mol'])
            cl.append(('final_molecule_is_the_spec_molecule', gg.iso_clause(g1, spec, pl.node_eq, pl.edge_eq)))
            cl.append(('same_as_two_level_string', gg.iso_clause(g1, g2, pl.node_eq, pl.edge_eq)))
        else:
            # coarse last level: the final graph is the fragment-level graph of the case
            case = shape['case']
            where = {a: bi for bi, b in enumerate(case['blocks']) for a in b}
            cnt = {}
            for (i, j) in case['cut']:
                key = tuple(sorted((where[i], where[j])))
                cnt[key] = cnt.get(key, 0) + 1
            import networkx as nx
            ref = nx.Graph()
            for bi in range(len(case['blocks'])):
                ref.add_node(bi, name='F%d' % bi)
            for (a, b), n in cnt.items():
                ref.add_edge(a, b, order=n)
            got = nx.Graph()
            for n, d in steps[-1]['mol']['nodes'].items():
                got.add_node(n, name=d.get('atomname'))
            for a, b, o2, _ in steps[-1]['mol']['edges']:
                got.add_edge(a, b, order=o2)
            cl.append(('final_graph_is_the_fragment_graph', gg.iso_clause(got, ref, lambda x, y: x['name'] == y['name'],
                                                                          lambda x, y: gg.val_eq(x['order'], y['order']))))
        return cl

    def sample(self, shape, cinp):
        return cinp['text']

    MUTANTS = {
        'level_counter_off': {'resolve': ("        all_atom = (self.resolution_counter == self.resolutions - 1 and self.last_all_atom)",
                                          "        all_atom = (self.resolution_counter == self.resolutions - 2 and self.last_all_atom)")},
        'names_not_switched': {'resolve': ('        nx.set_node_attributes(self.meta_graph, new_fragnames, "fragname")\n', '')},
        'all_atom_flag_on_every_level': {'resolve': ("            all_atom = (idx == len(fragment_strings) - 1 and last_all_atom)",
                                                     "            all_atom = last_all_atom")},
    }


PROP = C06()

# shape families added after the first complete pass (DESIGN 8.6-8.11); appended to the bounds written into the evidence
BOUNDS_ADDED = "; plus templates: sibling branches, shared nodes on one or two levels, names re-used across levels, '<' half first, legacy=False where unambiguous; stored fragment graphs compared with the induced sub-graph at every step"
PROP.BOUNDS = {k: v + BOUNDS_ADDED for k, v in PROP.BOUNDS.items()}
