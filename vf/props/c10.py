"""C10 -- shared atoms: the squash operator merges exactly the two marked atoms."""
import itertools

import networkx as nx

from .. import core, gen_graph as gg, gen_mol as gm, pipeline as pl, symx
from .c01 import install_summaries, OPT_VARIANTS

MOLS_Q = ['CCO', 'CC(C)C', 'C1CC1', 'CCCC', 'Cc1ccccc1', 'CC(=O)O', 'C=CC', 'CSc1ccccc1C']
MOLS_T = MOLS_Q + ['c1ccccc1', 'C1CCCCC1', 'CC(C)(C)C', 'OCCOCCO', 'CCc1ccccc1', 'C1CC1CO', 'C[N+](C)(C)C', 'CSC']


# the shared-node operator at a level whose fragments are beads (last_all_atom=False): (overlapping description, disjoint
# description of the same bead graph, number of shared pairs); '@l' / '@m' are symbolic label holes
COARSE = [
    ('{[#X][#Y]}.{#X=[#A][#S][!@l],#Y=[!@l][#S][#B]}', '{[#X][#Y]}.{#X=[#A][#S][$@l],#Y=[$@l][#B]}', 1),
    ('{[#X][#Y][#Z]}.{#X=[#A][#S][!@l],#Y=[!@l][#S][#T][!@m],#Z=[!@m][#T]=[#B]}', '{[#X][#Y][#Z]}.{#X=[#A][$@l],#Y=[$@l][#S][#T]=[$@m],#Z=[$@m]=[#B]}', 2),
    ('{[#X][#Y][#Z]}.{#X=[#A][#S][!@l],#Y=[!@l][#S]([#B])[$@m],#Z=[$@m][#C]}', '{[#X][#Y][#Z]}.{#X=[#A][$@l],#Y=[$@l][#S]([#B])[$@m],#Z=[$@m][#C]}', 1),
    # the shared bead resolved one level further, down to atoms (nothing is shared at the last level: 0 shared atoms there)
    ('{[#X][#Y]}.{#X=[#A][#S][!@l],#Y=[!@l][#S][#B]}.{#A=OC[$],#S=[$]CC[$],#B=[$]N}', '{[#X][#Y]}.{#X=[#A][#S][$@l],#Y=[$@l][#B]}.{#A=OC[$],#S=[$]CC[$],#B=[$]N}', 0),
    # shared nodes at the bead level and shared atoms at the last level of the same string
    ('{[#P][#Q]}.{#P=[#A][#B][!@l],#Q=[!@l][#B][#C]}.{#A=OC[!],#B=[!]CC[!],#C=[!]CN}',
     '{[#P][#Q]}.{#P=[#A][#B][$@l],#Q=[$@l][#C]}.{#A=OC[!],#B=[!]CC[!],#C=[!]CN}', 2),
]


def fill(text, holes):
    parts, i = [], 0
    while i < len(text):
        if text[i] == '@':
            parts.append(holes[text[i + 1]])
            i += 2
        else:
            parts.append(text[i])
            i += 1
    return symx.cat(*parts)


class C10(core.Prop):
    ID = 'C10'
    FUNCTIONS = ['squash_atoms', 'edges_from_bonding_descrpt', 'resolve', 'rebuild_h_atoms', 'sort_nodes_by_attr', 'annotate_fragments',
                 'match_bonding_descriptors', 'compatible', 'strip_bonding_descriptors', 'merge_graphs', 'resolve_disconnected_molecule']
    STUBS = ['networkx contracted_nodes, pysmiles aromaticity/valence: native', 're matcher (symx)', 'compatible(): summarised']
    ASSUMPTIONS = ['which cut bonds are described by sharing an end atom (and which end) is an enumerated shape choice, because sharing adds an '
                   'atom to the fragment text; descriptor labels (1 alnum char, pairwise distinct) and the kinds of the remaining ordinary cuts are symbolic',
                   'expected molecule: the spec molecule (same as the disjoint description), hydrogens by the valence table']
    OUTSIDE = ['shared atoms with equal labels on different pairs (ambiguous; pysmiles may refuse to kekulise)', 'molecules beyond the bound']
    BOUNDS = {
        'quick': 'molecules %s x partitions into <= 3 fragments x every non-empty subset of <= 2 cut bonds replaced by sharing (both ends), '
                 'incl. one atom shared by three fragments, shared aromatic atoms, shared atoms carrying ordinary descriptors' % MOLS_Q,
        'thorough': 'molecules %s x partitions into <= 4 fragments x subsets of <= 3 shared cuts (both ends), 2 renderings' % MOLS_T,
    }
    LEVEL_TEXT = ('Bounded: per molecule x partition x sharing pattern z3 explores all labels/kinds on the real resolver and decides that the '
                  'result is isomorphic to the spec molecule (= the disjoint description), has exactly one atom fewer per shared pair than the '
                  'fragments together, and that each merged atom belongs to both coarse nodes.')
    TECHNIQUE = 'symbolic execution of the resolver incl. squash_atoms over sharing patterns with symbolic labels; by-construction oracle; z3'
    MAX_PATHS = 3000

    def setup_shadow(self, SH):
        install_summaries(SH)

    def shapes(self, tier):
        out = []
        q = tier == 'quick'
        mols = MOLS_Q if q else MOLS_T
        for smi in mols:
            parts = [p for p in pl.cases_for(smi, max_frag=3 if q else 4, max_cut_pair=2) if p[0]]
            cap = 6 if q else 20
            if len(parts) > cap:
                step = len(parts) / float(cap)
                parts = [parts[int(i * step)] for i in range(cap)]
            for cut, comps in parts:
                ncut = len(cut)
                for k in range(1, min(ncut, 2 if q else 3) + 1):
                    for subset in itertools.combinations(range(ncut), k):
                        for ends in itertools.product((0, 1), repeat=k):
                            for oi in ((0,) if q else (0, 1)):
                                case = pl.make_case(smi, cut, comps, OPT_VARIANTS[oi])
                                case['shared'] = [[ci, e] for ci, e in zip(subset, ends)]
                                out.append(case)
        # the same cases with every descriptor in parentheses of its own, C([!a])C, directly after its atom or after the atom's
        # last closed branch
        base = [c for c in out]
        for i, case in enumerate(base[::(3 if q else 2)]):
            out.append(dict(case, opts=dict(case['opts'], paren=True, after_branch=bool(i % 2))))
        # the other constructors / drivers (pipeline.VARIANTS); not the variants that build the base graph in another order:
        # which copy of a shared atom survives follows the insertion order of the coarse nodes (DESIGN 8.8)
        vs = [k for k, v in enumerate(pl.VARIANTS) if k and not str(v.get('entry', '')).startswith('graph')]
        for i, case in enumerate(list(out)[::(5 if q else 7)]):
            out.append(dict(case, variant=vs[i % len(vs)]))
        # the label-insensitive convention (legacy=False) where it cannot create ambiguity: one shared pair and one ordinary cut
        lg = [c for c in out if not c.get('variant') and len(c['cut']) == 2 and len(c['shared']) == 1]
        for case in lg[::(3 if q else 2)]:
            out.append(dict(case, legacy=False))
        for i in range(len(COARSE)):
            for ll in (0, 1):
                if ll == 0 and '@m' in COARSE[i][0]:
                    continue        # two unlabelled pairs would be ambiguous: the labels are what tells them apart
                out.append({'mode': 'coarse', 'idx': i, 'll': ll})
        return out

    def build(self, shape):
        if shape.get('mode') == 'coarse':
            over, disj, _n = COARSE[shape['idx']]
            holes = {k: symx.SymStr.mk([symx.sym_alnum('lab%s%d' % (k, i)) for i in range(shape['ll'])]) for k in 'lm'}
            if shape['ll']:
                symx.ENG.add(symx.unwrap_bool(symx.bnot(holes['l'] == holes['m'])))
            return {'text': fill(over, holes), 'disjoint': fill(disj, holes)}
        r = pl.render_case(shape)
        nfrag_atoms = sum(len(b) for b in r.blocks)
        return {'text': r.text, 'nfrag_atoms': nfrag_atoms}

    def execute(self, M, shape, inp):
        if shape.get('mode') == 'coarse':
            aa = COARSE[shape['idx']][0].count('}.{') == 2
            return [core.guard(pl.run_resolver, M, inp['text'], last_all_atom=aa, how='all'),
                    core.guard(pl.run_resolver, M, inp['disjoint'], last_all_atom=aa, how='all')]
        if shape.get('variant'):
            return core.guard(pl.run_variant, M, inp['text'], pl.VARIANTS[shape['variant']])
        return core.guard(pl.run_resolver, M, inp['text'], legacy=shape.get('legacy', True))

    def _oracle_coarse(self, shape, inp, obs):
        over, disj = obs
        cl = [('accepted', over[0] == 'ok' and disj[0] == 'ok')]
        if over[0] != 'ok' or disj[0] != 'ok':
            return cl

        def as_graph(data):
            g = nx.Graph()
            for n, d in data['nodes'].items():
                g.add_node(n, **d)
            for a, b, o, _bd in data['edges']:
                g.add_edge(a, b, order=o)
            return g
        g1, g2 = as_graph(over[1]['mol']), as_graph(disj[1]['mol'])
        cl.append(('same_molecule_as_disjoint_description',
                   gg.iso_clause(g1, g2, lambda x, y: (x.get('element'), x.get('atomname') if 'element' not in x else None) ==
                                 (y.get('element'), y.get('atomname') if 'element' not in y else None),
                                 lambda x, y: gg.val_eq(x.get('order'), y.get('order')),
                                 concrete_label=lambda d: d.get('element') or d.get('atomname'))))
        nshared = COARSE[shape['idx']][2]
        nodes = over[1]['mol']['nodes']
        cl.append(('merged_atoms_belong_to_both_nodes', sum(1 for d in nodes.values() if d.get('element') != 'H' and len(set(d.get('fragid', []))) > 1) == nshared))
        return cl

    def oracle(self, shape, inp, obs):
        if shape.get('mode') == 'coarse':
            return self._oracle_coarse(shape, inp, obs)
        cl = [('accepted', obs[0] == 'ok')]
        if obs[0] != 'ok':
            return cl
        mol = gm.parse_smiles(shape['smiles'])
        spec = pl.spec_graph(mol)
        g, h_ok, _ = pl.observed_heavy_graph(obs[1]['mol'])
        cl.append(('hydrogens_wellformed', h_ok))
        cl.append(('same_molecule_as_disjoint_description', gg.iso_clause(g, spec, pl.node_eq, pl.edge_eq)))
        nshared = len(shape['shared'])
        cl.append(('one_atom_fewer_per_shared_pair', len(g) == inp['nfrag_atoms'] - nshared))
        nodes = obs[1]['mol']['nodes']
        multi = [n for n in g.nodes if len(nodes[n].get('fragid', [])) > 1]
        # every shared pair yields an atom that belongs to (at least) two coarse nodes; nothing else does
        dup_atoms = set()
        cuts = [tuple(c) for c in shape['cut']]
        for ci, end in shape['shared']:
            i, j = cuts[ci]
            dup_atoms.add(j if end == 1 else i)
        cl.append(('merged_atoms_belong_to_both_nodes', len(multi) == len(dup_atoms)))
        # exact membership: every atom of the spec molecule belongs to the coarse nodes of all blocks that hold it or a copy of it
        r = pl.render_case(shape) if False else None
        blocks = [list(b) for b in shape['blocks']]
        where = {a: bi for bi, b in enumerate(blocks) for a in b}
        owners = {a: {where[a]} for a in range(len(mol.atoms))}
        for ci, end in shape['shared']:
            i, j = cuts[ci]
            keep, dup = (i, j) if end == 1 else (j, i)
            owners[dup].add(where[keep])
        cnt = {}
        for ci2, (i, j) in enumerate(cuts):
            key = tuple(sorted((where[i], where[j])))
            cnt[key] = cnt.get(key, 0) + 1
        _p, border = pl.base_graph_text(len(blocks), cnt, root=shape['opts'].get('root', 0) % len(blocks), rev=bool(shape['opts'].get('rev', 0)))
        coarse_of = {b: k for k, b in enumerate(border)}
        expected = sorted(sorted(coarse_of[b] for b in own) for own in owners.values())
        observed = sorted(sorted(set(nodes[n].get('fragid', []))) for n in g.nodes)
        cl.append(('every_atom_belongs_to_exactly_the_coarse_nodes_that_hold_it', expected == observed))
        members = obs[1]['meta']['nodes']
        cl.append(('membership_consistent', all(
            sorted(k for k, d in members.items() if n in d.get('_members', [])) == sorted(set(nodes[n].get('fragid', []))) for n in nodes)))
        return cl

    def classify(self, shape, cinp, cobs, clauses):
        return None

    def sample(self, shape, cinp):
        return cinp['text']

    MUTANTS = {
        'membership_not_concatenated': {'resolve': (
            "            self.molecule.nodes[node_to_keep]['fragid'] += self.molecule.nodes[node_to_keep]['contraction'][node_to_remove]['fragid']\n", "")},
        'repeated_merge_not_remapped': {'resolve': ("            while node_to_keep in squashed:\n                node_to_keep = squashed[node_to_keep]\n", "")},
        'hcount_not_lowered_on_squash': {'resolve': ("                self.molecule.nodes[node_to_keep]['hcount'] = max(0, hcount - taken)\n", "")},
    }


PROP = C10()

# shape families added after the first complete pass (DESIGN 8.6-8.11); appended to the bounds written into the evidence
BOUNDS_ADDED = '; plus: bead-level and layered (two-level) shared nodes against the disjoint description, pipeline.VARIANTS (string-order constructors), legacy=False with one shared pair and one ordinary cut, every third case with each descriptor in parentheses of its own (directly after the atom / after its last closed branch)'
PROP.BOUNDS = {k: v + BOUNDS_ADDED for k, v in PROP.BOUNDS.items()}
