"""C20 -- malformed input is rejected, never silently resolved."""
import copy
import itertools

from .. import core, gen_graph as gg, symx
from ..symx import SymStr, band, bnot, bor, cat, sym_alnum, sym_char


def ring_outcome(markers):
    """spec-side reading of ring markers: a marker whose integer equals an open one closes it
    (edge between the two nodes), otherwise it opens.  markers: [(node, value, order)].
    The comparisons may be symbolic: the oracle forks on them."""
    open_ = []
    edges = []
    for node, val, order in markers:
        hit = None
        for k, (v2, n2, o2) in enumerate(open_):
            if v2 == val:        # forks when symbolic
                hit = k
                break
        if hit is None:
            open_.append((val, node, order))
        else:
            v2, n2, o2 = open_.pop(hit)
            if n2 == node:
                # a marker closed on the very node that opened it is neither a valid ring bond
                # nor one of the listed faults: outside the claim
                raise symx.PathAbort()
            edges.append((n2, node, o2))
    return edges, bool(open_)


class C20(core.Prop):
    ID = 'C20'
    FUNCTIONS = ['read_cgsmiles', '_parse_dialect_string', 'check_and_cast_types', 'resolve_disconnected_molecule',
                 'from_string', 'read_fragments', 'fragment_iter']
    STUBS = ['re.finditer/findall on symbolic strings: symx matcher', 'inspect.Signature.bind native']
    ASSUMPTIONS = ['ring markers are independent symbolic integers (digit 1-9 or %nn); the fault predicate is evaluated by a '
                   'spec-side open/close simulation', 'annotation text is a free string over the alphabet q w m 1 . x = ; '
                   '(float() of values over that alphabet: digits with at most one dot)',
                   'node and fragment names are single symbolic alnum characters']
    OUTSIDE = ['faults other than the listed ones (e.g. a ring marker closed on the node that opened it); error messages (only the exception type is compared)',
               'strings with the reader\'s known double-branch-close defect (no "))" in the shapes)']
    BOUNDS = {
        'quick': 'ring faults: trees <= 4 nodes (no "))") x 1-3 independent markers on every node multiset; missing fragment: base graphs '
                 '<= 3 nodes with symbolic names and symbolic edge orders against 1-2 definitions; annotation faults: free annotation '
                 'strings of length <= 4 at 2 positions',
        'thorough': 'ring faults: trees <= 5 nodes x 1-4 markers incl. %nn; missing fragment: base graphs <= 4 nodes incl. ring and branch; '
                    'annotation strings of length <= 5 at every node of 3-node graphs, also inside fragments of a resolver string',
    }
    LEVEL_TEXT = ('Bounded, both directions: per skeleton z3 decides on every path of the real reader/resolver source that the documented '
                  'exception is raised IFF the spec-side fault predicate holds (dangling or duplicating ring marker, fragment-less node with '
                  'a non-zero edge, annotation with two "=", too many positionals, non-numeric q/w) and that otherwise the denoted graph is returned.')
    TECHNIQUE = 'symbolic execution with the fault itself symbolic (ring integers, names, edge orders, free annotation string); iff-oracle; z3'
    MAX_PATHS = 60000

    def shapes(self, tier):
        out = []
        nmax = 4 if tier == 'quick' else 5
        kmax = 3 if tier == 'quick' else 4
        for n in range(1, nmax + 1):
            for base in gg.tree_shapes(n, max_nest=2):
                s = gg.no_double_close(base)
                if gg.render(s, self._concrete_rec(s))[0].count('))'):
                    continue
                for k in range(1, kmax + 1):
                    combos = list(itertools.combinations_with_replacement(range(n), k))
                    if tier == 'quick' and n == 4:
                        combos = combos[::3]
                    if tier == 'thorough' and n == 5:
                        combos = combos[::4]
                    for nodes in combos:
                        kinds = ['d' * k] + (['p' + 'd' * (k - 1), 'd' * (k - 1) + 'p'] if tier == 'thorough' or n <= 3 else [])
                        for kind in kinds:
                            t = copy.deepcopy(s)
                            t.pop('parent', None)
                            out.append({'mode': 'ring', 'g': t, 'marks': [[nd, kd] for nd, kd in zip(nodes, kind)],
                                        'first_order': k >= 2})
        # two ring bonds between the same two nodes (four markers on two nodes), also inside a branch and late in the string
        for n in (3, 4):
            for base in gg.tree_shapes(n, max_nest=1)[:3]:
                s = gg.no_double_close(base)
                s.pop('parent', None)
                for (i, j) in ((0, n - 1), (1, n - 1)):
                    if i == j:
                        continue
                    out.append({'mode': 'ring', 'g': copy.deepcopy(s), 'marks': [[i, 'd'], [i, 'd'], [j, 'd'], [j, 'd']], 'first_order': False})
                    out.append({'mode': 'ring', 'g': copy.deepcopy(s), 'marks': [[i, 'd'], [i, 'p'], [j, 'd'], [j, 'p']], 'first_order': False})
        # missing fragment
        gmax = 3 if tier == 'quick' else 4
        for n in range(1, gmax + 1):
            for base in gg.tree_shapes(n, max_nest=1):
                s = gg.no_double_close(base)
                s.pop('parent', None)
                for el in list(gg.elems(s['chain']))[1:]:
                    el['ord'] = 'o%d' % el['v']
                for ndef in (1, 2):
                    out.append({'mode': 'missing', 'g': s, 'ndef': ndef, 'symbols': '.-=' if (tier == 'quick' or n == 4) else gg.SYMBOLS})
                if n >= 2:
                    # history: the base graph object was resolved before with a complete fragment set (and carries what that left on it)
                    out.append({'mode': 'missing', 'g': s, 'ndef': 1, 'symbols': '.-', 'history': 'graph_resolved_before'})
                if n >= 3:
                    for (i, j) in gg.ring_candidates(base['parent'])[:1]:
                        t = copy.deepcopy(s)
                        t['rings'] = [[i, j, 'd', 's']]
                        out.append({'mode': 'missing', 'g': t, 'ndef': 2, 'symbols': '.-'})
        # annotation faults
        lens = (1, 2, 3, 4) if tier == 'quick' else (1, 2, 3, 4, 5)
        for L in lens:
            for pos in ((0, 1) if tier == 'quick' else (0, 1, 2)):
                out.append({'mode': 'annot', 'len': L, 'pos': pos, 'where': 'base'})
            if tier == 'thorough' and L <= 4:
                out.append({'mode': 'annot', 'len': L, 'pos': 0, 'where': 'resolver'})
        return out

    @staticmethod
    def _concrete_rec(s):
        return {'name': {str(el['v']): 'X' for el in gg.elems(s['chain'])}, 'ann': {}, 'ord': {}, 'rord': [], 'rmark': []}

    # ------------------------------------------------------------------
    def build(self, shape):
        mode = shape['mode']
        if mode == 'ring':
            g = shape['g']
            rec = gg.make_holes(g)
            marks = []
            after = {}
            for k, (node, kind) in enumerate(shape['marks']):
                if kind == 'd':
                    m = SymStr([sym_char('mk%d' % k, lo=49, hi=57)])
                else:
                    m = SymStr(['%', sym_char('mk%d_0' % k, lo=48, hi=57), sym_char('mk%d_1' % k, lo=48, hi=57)])
                o = None
                if k == 0 and shape.get('first_order'):
                    o = SymStr([sym_char('mko', allowed=gg.SYMBOLS)])
                marks.append({'node': node, 'mark': m, 'ord': o})
            # digit markers before %nn markers on one node (a digit directly after %nn is outside the grammar)
            order = sorted(range(len(marks)), key=lambda i: (marks[i]['node'], 0 if shape['marks'][i][1] == 'd' else 1, i))
            for i in order:
                mk = marks[i]
                after.setdefault(mk['node'], []).append(cat(mk['ord'] or '', mk['mark']))
            text, _ = gg.render(g, rec, after_node=after)
            return {'text': cat('{', text, '}'), 'holes': rec, 'marks': [marks[i] for i in order]}
        if mode == 'missing':
            g = shape['g']
            rec = gg.make_holes(g, symbols=shape.get('symbols', gg.SYMBOLS))
            text, conds = gg.render(g, rec)
            for c in conds:
                symx.ENG.assume(c)
            defs = [SymStr([sym_alnum('def%d' % k)]) for k in range(shape['ndef'])]
            bodies = ['[$]C[$][$]', '[$]O[$][$]']
            frag = cat('{', *[cat('' if k == 0 else ',', '#', d, '=', bodies[k]) for k, d in enumerate(defs)], '}')
            names = [rec['name'][str(e['v'])] for e in gg.elems(g['chain'])]
            full = cat('{', *[cat('' if k == 0 else ',', '#', nm, '=', bodies[0]) for k, nm in enumerate(names)], '}')
            return {'text': cat('{', text, '}.', frag), 'holes': rec, 'defs': defs, 'full': full}
        L = shape['len']
        ann = SymStr([sym_char('an%d' % k, allowed='qwm1.x=;') for k in range(L)])
        if shape['where'] == 'base':
            names = ['A', 'B', 'C']
            parts = []
            for i, nm in enumerate(names):
                parts.append(cat('[#', nm, ';', ann, ']') if i == shape['pos'] else '[#%s]' % nm)
            return {'text': cat('{', *parts, '}'), 'ann': ann}
        return {'text': cat('{[#A][#B]}.{#A=[#P;', ann, '][$],#B=[$][#Q]}'), 'ann': ann}

    def execute(self, M, shape, inp):
        if shape['mode'] == 'missing' or shape.get('where') == 'resolver':
            def run():
                aa = shape['mode'] == 'missing'
                if shape.get('history') == 'graph_resolved_before':
                    from .. import pipeline as pl
                    base, frag = pl.split_layers(inp['text'])
                    mg = M.read_cgsmiles.read_cgsmiles(base)
                    core.guard(lambda: M.resolve.MoleculeResolver.from_graph(inp['full'], mg, last_all_atom=True).resolve())
                    meta, mol = M.resolve.MoleculeResolver.from_graph(frag, mg, last_all_atom=True).resolve()
                    return [sorted(meta.nodes), len(mol) > 0]
                meta, mol = M.resolve.MoleculeResolver.from_string(inp['text'], last_all_atom=aa).resolve()
                return [sorted(meta.nodes), len(mol) > 0]
            return core.guard(run)
        return core.guard(M.read_cgsmiles.read_cgsmiles, inp['text'])

    # ------------------------------------------------------------------
    def oracle(self, shape, inp, obs):
        mode = shape['mode']
        if mode == 'ring':
            g = shape['g']
            nodes, edges = gg.denote(g, inp['holes'])
            markers = [(m['node'], gg.marker_value(m['mark']), gg.sym2ord(m['ord'])) for m in inp['marks']]
            ring_edges, dangling = ring_outcome(markers)
            dup = False
            seen = set(edges)
            for a, b, o in ring_edges:
                e = frozenset((a, b))
                if e in seen:
                    dup = True
                seen.add(e)
            fault = dangling or dup
            if fault:
                return [('fault_rejected_with_SyntaxError', obs == ('exc', 'SyntaxError'))]
            if obs[0] != 'ok':
                return [('valid_string_accepted', False)]
            for a, b, o in ring_edges:
                edges[frozenset((a, b))] = o
            return [('valid_string_accepted', True)] + gg.graph_matches(obs[1], nodes, edges)
        if mode == 'missing':
            g = shape['g']
            nodes, edges = gg.denote(g, inp['holes'])
            fault = False
            for i, attrs in enumerate(nodes):
                undefined = band(*[attrs['fragname'] != d for d in inp['defs']])
                if not undefined:          # forks
                    continue
                orders = [o for e, o in edges.items() if i in e]
                nonzero = bor(*[o != 0 for o in orders])
                if nonzero:                # forks
                    fault = True
                    break
            if fault:
                return [('fault_rejected_with_SyntaxError', obs == ('exc', 'SyntaxError'))]
            return [('valid_string_accepted', obs[0] == 'ok')]
        # annotation
        outcome = self.annot_outcome(inp['ann'], base=(shape['where'] == 'base'))
        if outcome == 'ok':
            return [('valid_string_accepted', obs[0] == 'ok')]
        return [('fault_rejected_with_' + outcome, obs == ('exc', outcome))]

    @staticmethod
    def annot_outcome(ann, base=True):
        """documented outcome for the annotation text following 'name;' (the oracle may fork)"""
        items = list(SymStr.lift(ann)._chs)
        entries = [[]]
        for c in items:
            if symx.mkbool(symx.ch_eq(c, ';')):              # forks
                entries.append([])
            else:
                entries[-1].append(c)
        pos, kw = [], {}
        for e in entries:
            eqs = [i for i, c in enumerate(e) if symx.mkbool(symx.ch_eq(c, '='))]      # forks
            if len(eqs) > 1:
                return 'SyntaxError'
            if not eqs:
                pos.append(e)
            else:
                key = symx.concretize_str(SymStr(e[:eqs[0]])) if eqs[0] else ''      # forks per key character
                kw[key] = e[eqs[0] + 1:]
        reserved = ['q', 'w'] if base else ['w', 'x']
        if len(pos) > len(reserved):
            return 'SyntaxError'
        vals = {}
        for k, v in zip(reserved, pos):
            vals[k] = v
        for k, v in kw.items():
            if k in vals or k == 'fragname':
                return 'SyntaxError'       # multiple values for one argument
            if k in reserved:
                vals[k] = v
        numeric = ['q', 'w'] if base else ['w']
        for k in numeric:
            if k in vals:
                chars = vals[k]
                # float(): digits with at most one dot and at least one digit (the alphabet has no sign/exponent)
                ndot = 0
                ndig = 0
                legal = True
                for c in chars:
                    is_dot, is_dig = symx.ch_eq(c, '.'), symx.ch_eq(c, '1')
                    legal = band(legal, bor(is_dot, is_dig))
                    ndot = ndot + (symx.ite(is_dot, 1, 0))
                    ndig = ndig + (symx.ite(is_dig, 1, 0))
                ok = band(legal, ndot <= 1, ndig >= 1)
                if not ok:                 # forks
                    return 'TypeError'
        return 'ok'

    def sample(self, shape, cinp):
        return cinp['text']

    MUTANTS = {
        'dangling_ignored': {'read_cgsmiles': ("    if cycle:\n        msg = \"You have a dangling ring index.\"",
                                               "    if len(cycle) > 1:\n        msg = \"You have a dangling ring index.\"")},
        'virtual_any_zero': {'resolve': ("if not all(np.array(orders) == 0):", "if orders and not any(np.array(orders) == 0):")},
        'two_equals_tolerated': {'dialects': ("            if entry.count('=') > 1:", "            if entry.count('=') > 2:")},
        'cast_error_swallowed': {'dialects': ("                except (TypeError, ValueError):\n                    raise TypeError(",
                                              "                except (TypeError, ValueError):\n                    if name == 'w': continue\n                    raise TypeError(")},
    }


PROP = C20()

# shape families added after the first complete pass (DESIGN 8.6-8.11); appended to the bounds written into the evidence
BOUNDS_ADDED = '; plus: missing-fragment shapes on a base graph object that was resolved before'
PROP.BOUNDS = {k: v + BOUNDS_ADDED for k, v in PROP.BOUNDS.items()}
