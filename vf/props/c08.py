"""C08 -- fragment definitions and complete strings round-trip through the writer."""
import itertools

import networkx as nx

from .. import core, gen_graph as gg, gen_mol as gm, pipeline as pl, symx
from ..symx import SymStr, band, cat, sym_alnum, sym_char
from .c01 import install_summaries, OPT_VARIANTS
from .c13 import insertion_points

SK_AA_Q = ['C', 'CO', 'CCC', 'C(C)C', 'C1CC1', 'CCl', 'C[O-]', '[NH3+]C', 'C=C', 'CC(=O)O', 'cc', 'c1ccccc1',
           'C=1CC1', 'C=1CCCC1', 'C1CC=1C', 'cc-cc', 'c1ccccc1-c1ccccc1', 'CSc1ccccc1', 'Cn1cccc1', 'C12C3C4C1C5C2C3C45']
SK_AA_T = SK_AA_Q + ['C1CCC1C', 'CC(C)(C)C', 'OC(=O)c1ccccc1', 'C#CC', 'ccc', 'Cc1ccccc1', 'N1CC1=O', 'CS(=O)(=O)C']
SK_CG_Q = ['[#A]', '[#A][#B]', '[#A]([#B])[#C]', '[#A]1[#B][#C]1', '[#A]=[#B]', '[#A]=1[#B][#C]1', '[#A]1[#B][#C]=1',
           '[#A]12[#B]3[#C]4[#D]1[#E]5[#F]2[#G]3[#H]45', '[#A]1=2[#B][#C]2[#D]1', '[#A]=1.2[#B][#C]2[#D]1']
SK_CG_T = SK_CG_Q + ['[#A][#B]([#C])[#D]', '[#A]1[#B]2[#C]1[#D]2', '[#A].[#B]']
# complete strings whose last level consists of beads (resolved and written with last_all_atom=False); '@l' is a label hole
FULL_CG = [
    '{[#A][#B][#A]}.{#A=[>@l][#X]([#Y])[#Z][<@l],#B=[<@l][#K]=[#L][>@l]}',
    '{[#A]=[#B]}.{#A=[$@l][#X][#Y][$@l],#B=[$@l][#K][$@l]}',
    '{[#P][#Q]}.{#P=[#A][#B][$@l],#Q=[$@l][#A]}.{#A=[$][#X][#Y][$],#B=[$][#K][$]}',
]
ORD_SYMS = {'0': '.', '1': '-', '2': '=', '3': '#'}


def frag_data(g, all_atom):
    keys = ('element', 'charge', 'aromatic', 'bonding') if all_atom else ('atomname', 'fragname', 'bonding', 'charge')
    nodes = {n: {k: (list(d[k]) if k == 'bonding' else d[k]) for k in keys if k in d} for n, d in g.nodes(data=True)}
    if not all_atom:
        for n, d in g.nodes(data=True):
            nodes[n]['name'] = d.get('atomname')
    return {'nodes': nodes, 'edges': [[a, b, d.get('order')] for a, b, d in g.edges(data=True)]}


def as_graph(fd):
    g = nx.Graph()
    for n, d in fd['nodes'].items():
        g.add_node(n, **d)
    for a, b, o in fd['edges']:
        g.add_edge(a, b, order=o)
    return g


def list_eq(a, b):
    """the two descriptor lists hold the same descriptors (as multisets; the property does not fix their order)"""
    if len(a) != len(b):
        return False
    import itertools
    from ..symx import bor
    return bor(*[band(*[x == b[i] for x, i in zip(a, p)]) for p in itertools.permutations(range(len(b)))]) if a else True


class C08(core.Prop):
    ID = 'C08'
    FUNCTIONS = ['format_bonding', 'write_graph', 'write_cgsmiles_fragments', 'write_cgsmiles', 'write_cgsmiles_graph', 'format_node',
                 'fragment_iter', 'read_fragments', 'strip_bonding_descriptors', 'read_fragment_smiles', 'read_fragment_cgsmiles',
                 'read_cgsmiles', 'resolve']
    STUBS = ['pysmiles format_atom / read_smiles / _write_edge_symbol native (atom text of the skeletons is concrete)', 're matcher (symx)',
             'compatible(): summarised']
    ASSUMPTIONS = ['fragment sets are obtained from the real reader on skeleton x descriptor holes (kind of 4, label 0-2 alnum, order 0-3) '
                   'and, for the coarse level, additionally constructed directly per the documented attribute contract',
                   'descriptor lists are compared as multisets per atom']
    OUTSIDE = ['fragment graphs the reader cannot produce', 'descriptors of order 4 / aromatic order', 'more than 2 descriptors per atom (quick) / 3 (thorough)']
    BOUNDS = {
        'quick': '%d atomistic + %d coarse skeletons x every single insertion point x 1-2 descriptors; two-fragment sets; complete strings: C01 quick '
                 'cases (first rendering, <= 12)' % (len(SK_AA_Q), len(SK_CG_Q)),
        'thorough': '%d atomistic + %d coarse skeletons x every insertion point x 1-3 descriptors and every pair of insertion points; three-fragment sets; '
                    'complete strings: C01 thorough cases <= 6 atoms' % (len(SK_AA_T), len(SK_CG_T)),
    }
    LEVEL_TEXT = ('Bounded: per skeleton and insertion pattern z3 decides on every path of reader -> writer -> reader that the re-read fragments are '
                  'isomorphic to the first reading incl. every descriptor string on its atom, for all kinds, labels and orders (0-3) at once; and '
                  'that a complete string written from a resolver\'s inputs resolves to an isomorphic molecule.')
    TECHNIQUE = 'symbolic execution of reader/writer/reader round trips with symbolic descriptors; isomorphism oracle; z3'
    MAX_PATHS = 8000

    def setup_shadow(self, SH):
        install_summaries(SH)

    def shapes(self, tier):
        out = []
        q = tier == 'quick'
        for aa, skels in ((True, SK_AA_Q if q else SK_AA_T), (False, SK_CG_Q if q else SK_CG_T)):
            for sk in skels:
                pts = [p for p in insertion_points(gm.tokenize(sk)) if p[0] in ('lead', 'atom', 'ring')]
                for p in pts:
                    for nd in ((1, 2) if q else (1, 2, 3)):
                        out.append({'mode': 'frag', 'aa': aa, 'frags': [{'skel': sk, 'ins': [[list(p), nd]]}]})
                if not q:
                    for p1, p2 in itertools.combinations(pts, 2):
                        out.append({'mode': 'frag', 'aa': aa, 'frags': [{'skel': sk, 'ins': [[list(p1), 1], [list(p2), 2]]}]})
            # fragment sets
            for i in range(len(skels) - 1):
                fr = [{'skel': skels[i], 'ins': [[['lead', 0], 1]]}, {'skel': skels[i + 1], 'ins': [[['atom', 0], 2]]}]
                if not q and i + 2 < len(skels):
                    fr.append({'skel': skels[i + 2], 'ins': [[['atom', 0], 1]]})
                out.append({'mode': 'frag', 'aa': aa, 'frags': fr})
        from .c01 import PROP as C01P
        mc = [s for s in C01P.shapes(tier) if s['opts'] == OPT_VARIANTS[0]]
        mc = mc[:12] if q else [s for s in mc if len(gm.parse_smiles(s['smiles']).atoms) <= 6]
        for s in mc:
            out.append({'mode': 'full', 'case': s})
        for i in range(len(FULL_CG)):
            for ll in (0, 1):
                out.append({'mode': 'full_cg', 'idx': i, 'll': ll})
        return out

    # ------------------------------------------------------------------
    def build(self, shape):
        if shape['mode'] == 'full':
            r = pl.render_case(shape['case'])
            return {'text': r.text}
        if shape['mode'] == 'full_cg':
            lab = symx.SymStr.mk([sym_alnum('lab%d' % i) for i in range(shape['ll'])])
            parts = FULL_CG[shape['idx']].split('@l')
            return {'text': cat(*[x for i, p in enumerate(parts) for x in ((lab, p) if i else (p,))])}
        parts = []
        for fi, fr in enumerate(shape['frags']):
            toks = gm.tokenize(fr['skel'])
            ins = {}
            for ii, (pt, nd) in enumerate(fr['ins']):
                ds = []
                for di in range(nd):
                    tag = "f%di%dd%d" % (fi, ii, di)
                    kind = sym_char(tag + 'k', allowed='$<>!')
                    label = [sym_alnum(tag + 'l')] if (ii + di) % 2 == 0 else []
                    osym = sym_char(tag + 'o', allowed='.-=#') if (ii + di) % 3 != 2 else None
                    d = cat('[', [kind], label, ']')
                    if osym is None:
                        ds.append(d)
                    elif pt[0] == 'lead':
                        ds.append(cat(d, [osym]))
                    else:
                        ds.append(cat([osym], d))
                ins[tuple(pt[:2])] = ds
            out = list(ins.get(('lead', 0), []))
            i = 0
            while i < len(toks):
                t = toks[i]
                out.append(t.text)
                if t.kind == 'atom':
                    out.extend(ins.get(('atom', t.atom), []))
                    j = i + 1
                    last_ring = None
                    while j < len(toks) and toks[j].kind in ('ring', 'bond'):
                        if toks[j].kind == 'ring':
                            last_ring = j
                        elif not (j + 1 < len(toks) and toks[j + 1].kind == 'ring'):
                            break
                        j += 1
                    if last_ring is not None:
                        for k in range(i + 1, last_ring + 1):
                            out.append(toks[k].text)
                        out.extend(ins.get(('ring', t.atom), []))
                        i = last_ring + 1
                        continue
                i += 1
            parts.append(cat('' if fi == 0 else ',', '#F%d=' % fi, *out))
        return {'text': cat('{', *parts, '}')}

    def execute(self, M, shape, inp):
        if shape['mode'] == 'full_cg':
            def run():
                R = M.resolve.MoleculeResolver
                r = R.from_string(inp['text'], last_all_atom=False)
                written = M.write_cgsmiles.write_cgsmiles(r.molecule, r.fragment_dicts, last_all_atom=False)
                m1 = R.from_string(inp['text'], last_all_atom=False).resolve_all()[1]
                m2 = R.from_string(written, last_all_atom=False).resolve_all()[1]
                return {'written': written, 'm1': pl.graph_data(m1), 'm2': pl.graph_data(m2)}
            return core.guard(run)
        if shape['mode'] == 'full':
            def run():
                R = M.resolve.MoleculeResolver
                r = R.from_string(inp['text'])
                written = M.write_cgsmiles.write_cgsmiles(r.molecule, r.fragment_dicts, last_all_atom=True)
                m1 = R.from_string(inp['text']).resolve_all()[1]
                m2 = R.from_string(written).resolve_all()[1]
                return {'written': written, 'm1': pl.graph_data(m1), 'm2': pl.graph_data(m2)}
            return core.guard(run)

        def run():
            aa = shape['aa']
            F = M.read_fragments.read_fragments(inp['text'], all_atom=aa)
            w = M.write_cgsmiles.write_cgsmiles_fragments(F, smiles_format=aa)
            F2 = M.read_fragments.read_fragments(w, all_atom=aa)
            return {'written': w, 'F': {k: frag_data(g, aa) for k, g in F.items()}, 'F2': {k: frag_data(g, aa) for k, g in F2.items()}}
        first = core.guard(lambda: {k: frag_data(g, shape['aa']) for k, g in
                                    M.read_fragments.read_fragments(inp['text'], all_atom=shape['aa']).items()})
        if first[0] != 'ok':
            return ('unreadable', first[1])
        return core.guard(run)

    def oracle(self, shape, inp, obs):
        if obs[0] == 'unreadable':
            raise symx.PathAbort()          # the reader does not accept the set: outside the quantifier
        if obs[0] != 'ok':
            return [('write_and_reread_succeed', False)]
        o = obs[1]
        cl = [('write_and_reread_succeed', True)]
        if shape['mode'] == 'full_cg':
            g1, g2 = as_graph({'nodes': o['m1']['nodes'], 'edges': [e[:3] for e in o['m1']['edges']]}), \
                as_graph({'nodes': o['m2']['nodes'], 'edges': [e[:3] for e in o['m2']['edges']]})
            cl.append(('rewritten_string_resolves_to_same_molecule',
                       gg.iso_clause(g1, g2, lambda x, y: x.get('atomname') == y.get('atomname'),
                                     lambda x, y: gg.val_eq(x.get('order'), y.get('order')), concrete_label=lambda d: d.get('atomname'))))
            return cl
        if shape['mode'] == 'full':
            g1, h1, _ = pl.observed_heavy_graph(o['m1'])
            g2, h2, _ = pl.observed_heavy_graph(o['m2'])
            cl.append(('rewritten_string_resolves_to_same_molecule', gg.iso_clause(g1, g2, pl.node_eq, pl.edge_eq)))
            return cl
        aa = shape['aa']
        cl.append(('same_fragment_names', sorted(o['F'].keys()) == sorted(o['F2'].keys())))
        if sorted(o['F'].keys()) != sorted(o['F2'].keys()):
            return cl

        def neq(x, y):
            if aa:
                base = band(x.get('element') == y.get('element'), gg.val_eq(x.get('charge', 0), y.get('charge', 0)),
                            bool(x.get('aromatic', False)) == bool(y.get('aromatic', False)))
            else:
                base = band(x.get('name') == y.get('name'), gg.val_eq(x.get('charge', 0), y.get('charge', 0)))
            return band(base, list_eq(x.get('bonding', []), y.get('bonding', [])))
        for k in o['F']:
            cl.append(('fragment_isomorphic_incl_descriptors', gg.iso_clause(as_graph(o['F'][k]), as_graph(o['F2'][k]), neq,
                                                                             lambda x, y: gg.val_eq(x.get('order'), y.get('order')))))
        return cl

    def classify(self, shape, cinp, cobs, clauses):
        return None

    def sample(self, shape, cinp):
        return cinp['text']

    MUTANTS = {
        'descriptor_label_truncated': {'write_cgsmiles': ('        bond_str += "["+str(bonding_descrpt[:-1])+"]"', '        bond_str += "["+str(bonding_descrpt[:2])+"]"')},
        'triple_as_double': {'write_cgsmiles': ("order_to_symbol = {0: '.', 1: '-', 1.5: ':', 2: '=', 3: '#', 4: '$'}",
                                                "order_to_symbol = {0: '.', 1: '-', 1.5: ':', 2: '=', 3: '=', 4: '$'}")},
    }


PROP = C08()

# shape families added after the first complete pass (DESIGN 8.6-8.11); appended to the bounds written into the evidence
BOUNDS_ADDED = '; plus: Sc/Cn skeletons, cubane (atoms and beads), two ring markers on one bead, complete strings with a bead last level written with last_all_atom=False'
PROP.BOUNDS = {k: v + BOUNDS_ADDED for k, v in PROP.BOUNDS.items()}
