"""C15 -- stereo information survives fragmentation and renumbering."""
import itertools

from .. import core, pipeline as pl, symx
from ..symx import SymStr, band, cat, sym_alnum, sym_char
from .c01 import install_summaries

# (uncut SMILES with slash holes @1.. and chirality hole @x, list of fragmentations: list of fragment texts with
#  descriptor placeholders %0 %1 ... (each %k appears exactly twice), base graph given as list of fragment indices in chain order)
MOLECULES = {
    'difluoroethene': ('F@1C=C@2F', [
        (['F@1C=%0', '%0=C@2F'], 'chain'),
    ]),
    'difluorobutene': ('CC(@1F)=C(@2F)C', [
        (['CC(@1F)=%0', '%0=C(@2F)C'], 'chain'),
        (['C%0', '%0C(@1F)=C(@2F)C'], 'chain'),
        (['C%0', '%0C(@1F)=%1', '%1=C(@2F)C'], 'chain'),
        (['C%0', '%0C(@1F)=C(@2F)%1', 'C%1'], 'chain'),
    ]),
    'butene': ('C@1C=C@2C', [
        (['C@1C=%0', '%0=C@2C'], 'chain'),
    ]),
    'chlorofluorodiene': ('F@1C=C@2CC@3C=C@4Cl', [
        (['F@1C=C@2C%0', '%0C@3C=C@4Cl'], 'chain'),
        (['F@1C=%0', '%0=C@2CC@3C=%1', '%1=C@4Cl'], 'chain'),
        (['F@1C=%0', '%0=C@2C%1', '%1C@3C=C@4Cl'], 'chain'),
    ]),
    'branched_fluorobutene': ('CC(C)@1C=C@2F', [          # a slash directly after a closed branch
        (['CC(C)@1C=%0', '%0=C@2F'], 'chain'),
        (['C%0', '%0C(C)@1C=C@2F'], 'chain'),
        (['CC(C)@1C=C@2%0', '%0@2F'], 'chain'),
    ]),
    'chlorobutene': ('Cl@1C=C@2CC', [                     # cut at the single bond next to the double bond, slash repeated on both sides
        (['Cl@1C=C@2%0', '%0@2CC'], 'chain'),
        (['Cl@1C=%0', '%0=C@2CC'], 'chain'),
        (['Cl@1%0', '%0@1C=C@2CC'], 'chain'),
    ]),
    'chlorooctene': ('CCCC@1C=C@2CCl', [                  # longer chain: the double bond lands on other atom indices with every cut
        (['C%0', '%0CCC@1C=C@2CCl'], 'chain'),
        (['CC%0', '%0CC@1C=C@2CCl'], 'chain'),
        (['CCC%0', '%0C@1C=C@2CCl'], 'chain'),
        (['CCCC@1C=C@2C%0', '%0Cl'], 'chain'),
    ]),
    'hydrogen_marked': ('[H]@1C(F)=C@2F', [                # the marked substituent is an explicitly written hydrogen
        (['[H]@1C(F)=%0', '%0=C@2F'], 'chain'),
        (['[H]@1C(%0)=C@2F', 'F%0'], 'chain'),
    ]),
    'thioether_chiral': ('CSc1ccc(cc1)[C;x=@x](F)Cl', [    # a label written after an aliphatic atom + aromatic atom pair
        (['C%0', '%0Sc1ccc(cc1)[C;x=@x](F)Cl'], 'chain'),
        (['CSc1ccc(cc1)[C;x=@x](F)%0', 'Cl%0'], 'chain'),
    ]),
    'chiral_centre': ('C[C;x=@x](F)(Cl)N', [
        (['C%0', '%0[C;x=@x](F)(Cl)N'], 'chain'),
        (['C[C;x=@x](%0)(Cl)N', 'F%0'], 'chain'),
        (['C%0', '[C;x=@x](%0)(F)(%1)N', 'Cl%1'], 'chain'),
    ]),
    'chiral_and_ez': ('F@1C=C@2[C;x=@x](Cl)(N)C', [
        (['F@1C=%0', '%0=C@2[C;x=@x](Cl)(N)C'], 'chain'),
        (['F@1C=C@2[C;x=@x](Cl)(%0)C', 'N%0'], 'chain'),
    ]),
}
# literal strings (descriptors written out; a fragment name may be used for several residues) with their uncut form
LITERAL = [
    ('{[#S][#N][#M][#N]}.{#S=C@1C=[>],#N=[<]=C@2C(F)=[>],#M=[<]=C@3C=[>]}', 'C@1C=C@2C(F)=C@3C=C@2CF'),
    ('{[#A][#X]([#B])([#C])[#D]}.{#A=F[$],#X=[$][C;x=@x]([$])([$])[$],#B=Cl[$],#C=Br[$],#D=I[$]}', 'F[C;x=@x](Cl)(Br)I'),
    ('{[#A][#X][#B]}.{#A=F[$],#X=[$][C;x=@x](Cl)([H])[$],#B=O[$]}', 'F[C;x=@x](Cl)([H])O'),
    # more than ten fragments, the marked substituent and the double bond in fragments 10 and 11
    ('{[#E][#M]|8[#L][#B]}.{#E=C[>],#M=[<]C[>],#L=[<]N@1[$],#B=[$]@1C=C@2F}', 'CCCCCCCCCN@1C=C@2F'),
    # the cut is a shared atom (squash operator): the second fragment states the double-bond carbon again and carries the
    # marked substituent, so the 4-tuples must name the surviving atom (seeded change C15-A10)
    ('{[#A][#B]}.{#A=F@1C=C@2[!],#B=[!]C@2F}', 'F@1C=C@2F'),
]


def chirality_signature(moldata):
    nodes = moldata['nodes']
    nb = {n: [] for n in nodes}
    for a, b, o, _ in moldata['edges']:
        nb[a].append(nodes[b].get('element'))
        nb[b].append(nodes[a].get('element'))
    return sorted([nodes[n]['chiral'], nodes[n].get('element'), sorted(nb[n])] for n in nodes if 'chiral' in nodes[n])


QUICK = ['difluoroethene', 'difluorobutene', 'butene', 'chiral_centre', 'branched_fluorobutene', 'chlorobutene', 'chiral_and_ez', 'chlorooctene', 'hydrogen_marked', 'thioether_chiral']


def ez_classes(moldata):
    """-> (sorted list of (element of substituent 1, element of substituent 2, class) per stored tuple, wellformed?)"""
    nodes = moldata['nodes']
    bonds = {frozenset((a, b)): o for a, b, o, _ in moldata['edges']}
    out = []
    ok = True
    for n, d in nodes.items():
        for tup in (d.get('ez_isomer') or []):
            n1, n2, n3, n4, typ = tup
            if n1 != n:
                ok = False
            for pair, order in (((n1, n2), None), ((n2, n3), 2), ((n3, n4), None)):
                o = bonds.get(frozenset(pair))
                if o is None or (order is not None and o != order):
                    ok = False
            if all(x in nodes for x in (n1, n4)):
                out.append([nodes[n1].get('element'), nodes[n4].get('element'), typ])
            else:
                ok = False
    return sorted(out), ok


class C15(core.Prop):
    ID = 'C15'
    FUNCTIONS = ['strip_bonding_descriptors', 'read_fragment_smiles', 'merge_graphs', 'sort_nodes_by_attr', 'annotate_ez_isomers_cgsmiles',
                 'resolve', 'edges_from_bonding_descrpt', 'rebuild_h_atoms', '_parse_dialect_string']
    STUBS = ['pysmiles _annotate_ez_isomers runs natively on symbolic slash characters (its comparisons fork through the engine)',
             're matcher (symx)', 'compatible(): summarised']
    ASSUMPTIONS = ['every slash mark is a symbolic character out of / and \\, the chirality letter out of R S, descriptor labels 1 alnum char '
                   '(pairwise distinct) with symbolic kinds',
                   'reference class: the uncut single-fragment run on the same path AND pysmiles.read_smiles on the plain uncut SMILES with the '
                   'path\'s slash values (the oracle concretises them by forking)',
                   'substituents of the stereo bonds are told apart by element']
    OUTSIDE = ['cut placements that separate a slash mark from the atom of its own fragment', 'ring stereo, allenes']
    BOUNDS = {
        'quick': 'molecules %s: every listed cut placement x both base-graph orders' % QUICK,
        'thorough': 'molecules %s (one and two stereo double bonds, labelled centre, both): every listed cut placement x every order of the '
                    'fragments in the base graph' % sorted(MOLECULES),
    }
    LEVEL_TEXT = ('Bounded: per molecule x cut placement x fragment order z3 explores all slash directions, chirality letters and descriptor '
                  'labels/kinds through the real code and decides that each double bond\'s cis/trans class equals the uncut run\'s and pysmiles\' '
                  'own reading, that every stored 4-tuple is a substituent-atom=atom-substituent path of the returned graph, and that the '
                  'chirality label sits on the atom with the expected neighbourhood.')
    TECHNIQUE = 'symbolic execution of the resolver with symbolic slash marks; metamorphic (uncut) + pysmiles reference oracle; z3'
    MAX_PATHS = 4000

    def setup_shadow(self, SH):
        install_summaries(SH)

    def shapes(self, tier):
        out = []
        names = QUICK if tier == 'quick' else sorted(MOLECULES)
        for nm in names:
            uncut, frags = MOLECULES[nm]
            for fi, (texts, _topo) in enumerate(frags):
                n = len(texts)
                perms = list(itertools.permutations(range(n)))
                if tier == 'quick':
                    perms = [perms[0], perms[-1]]
                for p in perms:
                    # the base graph must stay connected as a chain of the fragments that share a descriptor
                    out.append({'mol': nm, 'frag': fi, 'order': list(p)})
        # the other constructors / drivers (pipeline.VARIANTS) for the fragments listed in writing order
        # (not the variants that build the base graph in another order: that is the recorded finding
        # C15-ez-class-depends-on-fragment-order seen through another door - the class follows the order in which the
        # fragments are merged)
        vs = [k for k, v in enumerate(pl.VARIANTS) if k and not str(v.get('entry', '')).startswith('graph')]
        for i, sh in enumerate([s_ for s_ in out if s_['order'] == sorted(s_['order'])]):
            out.append(dict(sh, variant=vs[i % len(vs)]))
        for i in range(len(LITERAL)):
            out.append({'mode': 'literal', 'idx': i})
        return out

    def build(self, shape):
        if shape.get('mode') == 'literal':
            layered, uncut = LITERAL[shape['idx']]
            slashes = {k: SymStr([sym_char('sl' + k, allowed='/\\')]) for k in '1234' if ('@' + k) in layered}
            xl = SymStr([sym_char('chir', allowed='RS')]) if '@x' in layered else None

            def fill(t):
                out = []
                i = 0
                while i < len(t):
                    if t[i] == '@':
                        out.append(xl if t[i + 1] == 'x' else slashes[t[i + 1]])
                        i += 2
                    else:
                        out.append(t[i])
                        i += 1
                return cat(*out)
            import re
            plain = re.sub(r';x=@x', '', uncut)
            return {'text': fill(layered), 'uncut': cat('{[#M]}.{#M=', fill(uncut), '}'), 'plain': fill(plain),
                    'slashes': slashes, 'chir': xl}
        uncut, frags = MOLECULES[shape['mol']]
        texts, _ = frags[shape['frag']]
        slashes = {}
        for k in '1234':
            if ('@' + k) in uncut:
                slashes[k] = SymStr([sym_char('sl' + k, allowed='/\\')])
        xl = SymStr([sym_char('chir', allowed='RS')]) if '@x' in uncut else None
        nd = len(set(c for t in texts for i, c in enumerate(t) if i and t[i - 1] == '%'))
        labels = [SymStr([sym_alnum('lab%d' % i)]) for i in range(nd)]
        for a, b in itertools.combinations(labels, 2):
            symx.ENG.assume(a != b)
        kinds = [sym_char('knd%d' % i, allowed='$<>') for i in range(nd)]
        seen = set()

        def fill(t):
            out = []
            i = 0
            while i < len(t):
                if t[i] == '@':
                    out.append(xl if t[i + 1] == 'x' else slashes[t[i + 1]])
                    i += 2
                elif t[i] == '%':
                    k = int(t[i + 1])
                    kind = kinds[k] if k not in seen else pl.complement_char(kinds[k])
                    seen.add(k)
                    out.append(cat('[', [kind], labels[k], ']'))
                    i += 2
                else:
                    out.append(t[i])
                    i += 1
            return cat(*out)
        ftexts = [fill(t) for t in texts]
        # base graph: fragments that share a descriptor are adjacent; written as a tree from the first fragment in 'order'
        adj = {i: set() for i in range(len(texts))}
        for k in range(nd):
            owners = [i for i, t in enumerate(texts) if '%%%d' % k in t]
            adj[owners[0]].add(owners[1])
            adj[owners[1]].add(owners[0])
        order = shape['order']
        pos = {f: i for i, f in enumerate(order)}

        def emit(f, parent):
            kids = sorted([g for g in adj[f] if g != parent], key=lambda g: pos[g])
            s = '[#F%d]' % f
            for i, g in enumerate(kids):
                s += emit(g, f) if i == len(kids) - 1 else '(' + emit(g, f) + ')'
            return s
        base = '{' + emit(order[0], None) + '}'
        fblock = cat('{', *[cat('' if i == 0 else ',', '#F%d=' % f, ftexts[f]) for i, f in enumerate(order)], '}')
        return {'text': cat(base, '.', fblock), 'uncut': cat('{[#M]}.{#M=', fill(uncut), '}'), 'plain': fill(uncut.replace('[C;x=@x]', 'C')),
                'slashes': slashes, 'chir': xl}

    def execute(self, M, shape, inp):
        return [core.guard(pl.run_variant, M, inp['text'], pl.VARIANTS[shape.get('variant', 0)]), core.guard(pl.run_resolver, M, inp['uncut'])]

    def oracle(self, shape, inp, obs):
        cut, uncut = obs
        cl = [('cut_string_accepted', cut[0] == 'ok'), ('uncut_string_accepted', uncut[0] == 'ok')]
        if cut[0] != 'ok' or uncut[0] != 'ok':
            return cl
        c1, ok1 = ez_classes(cut[1]['mol'])
        c2, ok2 = ez_classes(uncut[1]['mol'])
        cl.append(('stored_references_are_paths_of_the_result', ok1 and ok2))
        cl.append(('same_classes_as_uncut', c1 == c2))
        if inp['slashes']:
            import pysmiles
            plain = symx.concretize_str(inp['plain'])       # forks over the slash values
            ref = pysmiles.read_smiles(plain, explicit_hydrogen=True)
            rc = sorted([ref.nodes[t[0]]['element'], ref.nodes[t[3]]['element'], t[4]]
                        for n, d in ref.nodes(data=True) for t in (d.get('ez_isomer') or []))
            cl.append(('same_classes_as_pysmiles_reading', c1 == rc))
        if shape.get('mode') == 'literal':
            cl.append(('chirality_labels_on_atoms_with_the_same_neighbourhood_as_uncut',
                       chirality_signature(cut[1]['mol']) == chirality_signature(uncut[1]['mol'])))
            return cl
        if inp['chir'] is not None:
            nodes = cut[1]['mol']['nodes']
            nb = {n: [] for n in nodes}
            for a, b, o, _ in cut[1]['mol']['edges']:
                nb[a].append(nodes[b].get('element'))
                nb[b].append(nodes[a].get('element'))
            labelled = [n for n, d in nodes.items() if 'chiral' in d]
            cl.append(('one_labelled_centre', len(labelled) == 1))
            if len(labelled) == 1:
                n = labelled[0]
                want = sorted({'chiral_centre': ['C', 'F', 'Cl', 'N'], 'thioether_chiral': ['C', 'F', 'Cl', 'H']}.get(shape['mol'], ['C', 'Cl', 'N', 'C']))
                cl.append(('label_value', nodes[n]['chiral'] == inp['chir']))
                cl.append(('label_on_atom_with_expected_neighbourhood', nodes[n].get('element') == 'C' and sorted(nb[n]) == want))
        return cl

    def classify(self, shape, cinp, cobs, clauses):
        # known finding: the cis/trans class depends on the order in which the base graph lists the fragments
        # (pysmiles' slash interpretation assumes SMILES-ordered node indices; after renumbering by fragment the
        # ligand/anchor order of the second half can be reversed).  Signature: only class clauses fail, the
        # fragments are not listed in the order of the uncut SMILES, and the same input (same slash values,
        # labels, kinds) with the fragments listed in that order passes every clause.
        if not set(clauses) <= {'same_classes_as_uncut', 'same_classes_as_pysmiles_reading'} or shape.get('mode') == 'literal':
            return None
        n = len(shape['order'])
        if shape['order'] == list(range(n)):
            return None
        text = cinp['text']
        base, fblock = text.split('}.{', 1)
        defs = {}
        for d in fblock[:-1].split(',#'):
            d = d.lstrip('#')
            name, body = d.split('=', 1)
            defs[name] = body
        alt_shape = dict(shape, order=list(range(n)))
        # rebuild the text for the natural order with the same definitions
        import re
        uncut, frags = MOLECULES[shape['mol']]
        texts, _ = frags[shape['frag']]
        nd = len(set(c for t in texts for i, c in enumerate(t) if i and t[i - 1] == '%'))
        adj = {i: set() for i in range(n)}
        for k in range(nd):
            owners = [i for i, t in enumerate(texts) if '%%%d' % k in t]
            adj[owners[0]].add(owners[1])
            adj[owners[1]].add(owners[0])

        def emit(f, parent):
            kids = sorted(g for g in adj[f] if g != parent)
            s2 = '[#F%d]' % f
            for i, g in enumerate(kids):
                s2 += emit(g, f) if i == len(kids) - 1 else '(' + emit(g, f) + ')'
            return s2
        alt_text = '{' + emit(0, None) + '}.{' + ','.join('#F%d=%s' % (f, defs['F%d' % f]) for f in range(n)) + '}'
        from .. import loader
        bad, _ = core.replay_record(self, loader.load_orig(self.MODULES), alt_shape, dict(cinp, text=alt_text))
        return None if bad else 'C15-ez-class-depends-on-fragment-order'

    def sample(self, shape, cinp):
        return cinp['text']

    MUTANTS = {
        'ez_offset_missing': {'graph_utils': ("new_atom['ez_isomer_atoms'] = (new_atom['ez_isomer_atoms'][0]+offset+1,", "new_atom['ez_isomer_atoms'] = (new_atom['ez_isomer_atoms'][0]+offset,")},
        'slash_on_previous_only': {'read_fragments': ("            ez_isomer_atoms[node_count] = token\n", "")},
        'ez_class_flipped_on_second_fragment': {'pysmiles_utils': ("    ez_isomer_class = {idx: val[-1] for idx, val in ez_isomers.items()}",
                                                                   "    ez_isomer_class = {idx: (val[-1] if not bonding_descrpt.get(0) else {'/': chr(92), chr(92): '/'}[val[-1]]) for idx, val in ez_isomers.items()}")},
    }


PROP = C15()

# shape families added after the first complete pass (DESIGN 8.6-8.11); appended to the bounds written into the evidence
BOUNDS_ADDED = '; plus molecules: chiral_and_ez, chlorooctene, hydrogen_marked, thioether_chiral; literal strings incl. > 10 fragments; string-order pipeline.VARIANTS'
PROP.BOUNDS = {k: v + BOUNDS_ADDED for k, v in PROP.BOUNDS.items()}
