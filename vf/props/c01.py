"""C01 -- cutting a molecule into fragments and resolving gives the molecule back."""
import itertools

from .. import core, gen_graph as gg, gen_mol as gm, pipeline as pl, symx
from ..symx import cat


def install_summaries(SH):
    """summarise the pure predicate `compatible` (explored once per argument pair in a nested engine)"""
    comp = SH.resolve.compatible
    memo = {}

    def pred(f, a, kw):
        return f is comp and any(symx.is_sym(x) for x in a)

    def handler(f, a, kw):
        return symx.summarise_bool(f, *a, **kw)
    symx.RT.call_hooks = [(pred, handler)]
    symx.RT.set_order_hook = None


OPT_VARIANTS = [
    {},
    {'start': 1, 'child': 1, 'root': 1, 'rev': 1},
    {'after_ring': True, 'lead': True, 'defrev': True},
    {'start': 2, 'lead': True, 'root': 2, 'ring_base': 3},
]


class C01(core.Prop):
    ID = 'C01'
    FUNCTIONS = ['from_string', 'read_fragment_strings', 'resolve', 'resolve_disconnected_molecule', 'edges_from_bonding_descrpt',
                 'squash_atoms', 'compatible', 'match_bonding_descriptors', 'strip_bonding_descriptors', 'collect_ring_number',
                 'fragment_iter', 'read_fragments', 'read_fragment_smiles', 'read_cgsmiles', 'merge_graphs', 'rebuild_h_atoms',
                 'sort_nodes_by_attr', 'annotate_fragments', 'set_atom_names_atomistic']
    STUBS = ['re.finditer/findall on symbolic strings: symx matcher',
             'compatible(): summarised per argument pair by nested exploration of its own rewritten source',
             'pysmiles (SMILES parser, valence, aromaticity), networkx: run natively (fragment SMILES atom text is concrete)']
    ASSUMPTIONS = ['descriptor kinds per cut are a symbolic choice out of $/$, >/<, </>; labels are 1 symbolic alnum character, '
                   'pairwise different between cuts (the property asks for uniquely labelled pairs)',
                   'bond orders of cut bonds are those of the molecule (written with the matching order symbol)',
                   'expected hydrogens from the valence table of DESIGN.md section 3.1']
    OUTSIDE = ['molecules beyond the bound / outside the organic subset', 'label spellings longer than 1 character (C03 varies label length)']
    BOUNDS = {
        'quick': 'molecules %s: every partition into <= 3 connected fragments with <= 2 cut bonds per pair, 2 renderings each '
                 '(start atom, branch order, descriptor after ring digits / leading, base-graph root and direction, definition order)' % pl.MOLS_SMALL,
        'thorough': 'molecules %s: every partition into <= 4 fragments (<= 3 cuts per pair; capped at 60 per molecule), 4 renderings each'
                    % (pl.MOLS_SMALL + pl.MOLS_MEDIUM + pl.MOLS_LARGE),
    }
    LEVEL_TEXT = ('Bounded: per molecule x partition x rendering z3 explores every feasible path of the real resolver pipeline for ALL '
                  'descriptor kinds and labels and decides that the result is isomorphic to the spec molecule (element, charge, bond '
                  'orders, exact hydrogens) and to the resolution of the uncut single-fragment string.')
    TECHNIQUE = 'symbolic execution of the resolver pipeline over molecule x partition skeletons with symbolic descriptor kinds/labels; by-construction + metamorphic oracle; z3'
    MAX_PATHS = 3000

    def setup_shadow(self, SH):
        install_summaries(SH)

    def shapes(self, tier):
        out = []
        if tier == 'quick':
            mols, max_frag, max_pair, nopt, cap = pl.MOLS_SMALL + ['c1ccc2ccccc2c1', 'CC1=CCC1'], 3, 2, 2, 12       # + one fused aromatic system, one ring with a double bond
        else:
            mols, max_frag, max_pair, nopt, cap = pl.MOLS_SMALL + pl.MOLS_MEDIUM + pl.MOLS_LARGE + ['CC1=CCC1', 'CC1=CCCC1', 'C1=CCC=C1C'], 4, 3, 4, 60
        for smi in mols:
            parts = pl.cases_for(smi, max_frag=max_frag, max_cut_pair=max_pair)
            parts = [p for p in parts if p[0]]          # at least one cut
            if len(parts) > cap:
                step = len(parts) / float(cap)
                parts = [parts[int(i * step)] for i in range(cap)]
            for cut, comps in parts:
                for oi in range(nopt):
                    out.append(pl.make_case(smi, cut, comps, OPT_VARIANTS[oi]))
                # the same description handed over as a base *graph* built in another order than the reader builds it
                # (MoleculeResolver.from_graph): node keys identify the coarse nodes, the insertion order means nothing
                if 'c' in smi or 'n' in smi:
                    # cuts through aromatic bonds written with the aromatic order symbol ':'
                    out.append(pl.make_case(smi, cut, comps, dict(OPT_VARIANTS[0], colon=True)))
                # descriptors in parentheses of their own, C([$])C, directly after the atom or after its last closed branch
                if tier != 'quick' or len(out) % 2:
                    out.append(pl.make_case(smi, cut, comps, dict(OPT_VARIANTS[0], paren=True, after_branch=bool(len(out) % 4 < 2))))
                # (pipeline.VARIANTS: constructor x driver x earlier use of the library in the same process)
                if len(comps) >= 2:
                    nv = len(pl.VARIANTS) - 1
                    ks = [1 + (len(out) % nv)] if tier == 'quick' else [1 + ((len(out) + j * 3) % nv) for j in range(3)]
                    for k in sorted(set(ks)):
                        out.append(pl.make_case(smi, cut, comps, dict(OPT_VARIANTS[0], variant=k)))
        # four cut bonds between one pair of fragments (the quadruple order symbol '$' in the base graph): cubane cut into two faces
        cub = 'C12C3C4C1C5C2C3C45'
        out.append(pl.make_case(cub, [(3, 4), (0, 5), (1, 6), (2, 7)], [[0, 1, 2, 3], [4, 5, 6, 7]], OPT_VARIANTS[0]))
        if tier != 'quick':
            out.append(pl.make_case(cub, [(3, 4), (0, 5), (1, 6), (2, 7)], [[0, 1, 2, 3], [4, 5, 6, 7]], OPT_VARIANTS[1]))
        return out

    def build(self, shape):
        r = pl.render_case(shape)
        return {'text': r.text, 'uncut': '{[#M]}.{#M=%s}' % shape['smiles'], 'holes': r.holes}

    def execute(self, M, shape, inp):
        return [core.guard(pl.run_variant, M, inp['text'], pl.VARIANTS[shape['opts'].get('variant', 0)]),
                core.guard(pl.run_resolver, M, inp['uncut'])]

    def oracle(self, shape, inp, obs):
        cut, uncut = obs
        cl = [('cut_string_accepted', cut[0] == 'ok'), ('uncut_string_accepted', uncut[0] == 'ok')]
        if cut[0] != 'ok' or uncut[0] != 'ok':
            return cl
        mol = gm.parse_smiles(shape['smiles'])
        spec = pl.spec_graph(mol)
        g1, h1, _ = pl.observed_heavy_graph(cut[1]['mol'])
        g2, h2, _ = pl.observed_heavy_graph(uncut[1]['mol'])
        cl.append(('hydrogens_wellformed', h1 and h2))
        cl.append(('cut_result_is_the_molecule', gg.iso_clause(g1, spec, pl.node_eq, pl.edge_eq)))
        cl.append(('uncut_result_is_the_molecule', gg.iso_clause(g2, spec, pl.node_eq, pl.edge_eq)))
        cl.append(('cut_equals_uncut', gg.iso_clause(g1, g2, pl.node_eq, pl.edge_eq)))
        return cl

    def sample(self, shape, cinp):
        return cinp['text']

    MUTANTS = {
        'hydrogens_not_rebuilt_for_charged': {'pysmiles_utils': (
            "    nx.set_node_attributes(mol_graph, 0, 'hcount')\n", "    pass\n")},
        'descriptors_not_consumed': {'resolve': (
            "                prev_graph.nodes[edge[0]]['bonding'].remove(bonding[0])\n                node_graph.nodes[edge[1]]['bonding'].remove(bonding[1])\n",
            "                pass\n")},
        'cut_order_lost': {'resolve': ("                order = int(bonding[0][-1])\n", "                order = 1\n")},
    }


PROP = C01()

# shape families added after the first complete pass (DESIGN 8.6-8.11); appended to the bounds written into the evidence
BOUNDS_ADDED = "; plus (sessions 2): cuts through aromatic bonds written with ':', one fused aromatic system, cubane cut into two faces (quadruple base edge), and for every case with >= 2 fragments one of pipeline.VARIANTS (from_graph with the base graph built in reverse/rotated order, from_fragment_dicts, resolve_all, resolve_iter, earlier unrelated use of the library), a ring with a double bond (the double bond as ring-closure bond in some renderings), descriptors in parentheses of their own directly after the atom or after its last closed branch"
PROP.BOUNDS = {k: v + BOUNDS_ADDED for k, v in PROP.BOUNDS.items()}
