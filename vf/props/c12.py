"""C12 -- output numbering is canonical and results depend on the input alone."""
import copy

from .. import core, gen_graph as gg, gen_mol as gm, pipeline as pl, symx
from ..symx import SymStr, band, cat, sym_alnum, sym_char
from .c01 import install_summaries, OPT_VARIANTS

CG_TEXTS = [
    ('{[#A][#B][#A]}', '{#A=[$@l][#P][#Q][$@l],#B=[$@l][#R]1[#S][#T]1[$@l]}'),
    ('{[#A]([#B])[#B]}', '{#A=[>@l][#P]([#Q])[>@l][>@l],#B=[<@l][#R][#S]}'),
    ('{[#A]1[#B][#C]1}', '{#A=[$@l][#P][$@l],#B=[$@l][#Q][#R][$@l],#C=[$@l][#S][$@l]}'),
    # one atom pair with two different descriptor pairs that are both compatible: the first listed one is to be used
    ('{[#A][#B]}', '{#A=[#P][$@l]=[>@l],#B=[$@l][<@l]=[#Q]}'),
    ('{[#A][#B][#A]}', '{#A=[#P][>@l][$@l],#B=[<@l][$@l][#Q][$@l][>@l]}'),
    # shared nodes at a coarse level
    ('{[#A][#B]}', '{#A=[#P][#Q][!@l],#B=[!@l][#Q][#R]}'),
    ('{[#A][#B][#C]}', '{#A=[#P][!@l],#B=[!@l][#P][#Q][!@l],#C=[!@l][#Q][#R]}'),
    ('{[#A]|12}', '{#A=[>@l][#P][#Q][<@l]}'),              # more than ten coarse nodes
]
AA_TEXTS = [
    ('{[#A][#B]}', '{#A=CC[$@l]=[>@l],#B=[$@l][<@l]=CC}'),
    ('{[#A][#B]}', '{#A=OC[!@l]C,#B=[!@l]CN}'),
    ('{[#A][#B][#C]}', '{#A=CC[!@l],#B=[!@l]CCC[$@l][>@l],#C=[$@l][<@l]CO}'),
    ('{[#A][#B]}', '{#A=N#C[!@l],#B=[!@l]CC(F)(F)F}'),      # no hydrogens at all
    # two molecules in one string (zero-order bond), a virtual node held by zero-order bonds, eleven coarse nodes
    ('{[#A][#B].[#A][#B]}', '{#A=[>@l]CC[<@l],#B=[>@l]CO[<@l]}'),
    ('{[#A][#B].[#V]}', '{#A=[>@l]CC[<@l],#B=[>@l]CO[<@l]}'),
    ('{[#A]|11[#B]}', '{#A=[>@l]C[<@l],#B=[>@l]O[<@l]}'),
]


def deep_eq(a, b):
    """equality of two plain-data observations; symbolic leaves give a symbolic condition"""
    if symx.is_sym(a) or symx.is_sym(b):
        return gg.val_eq(a, b) if not isinstance(a, SymStr) and not isinstance(b, SymStr) else (a == b)
    if isinstance(a, dict) and isinstance(b, dict):
        if list(a.keys()) != list(b.keys()):
            if sorted(map(repr, a.keys())) != sorted(map(repr, b.keys())):
                return False
        return band(*[deep_eq(a[k], b[k]) for k in a])
    if isinstance(a, (list, tuple)) and isinstance(b, (list, tuple)):
        if len(a) != len(b):
            return False
        return band(*[deep_eq(x, y) for x, y in zip(a, b)])
    if isinstance(a, float) or isinstance(b, float):
        return gg.val_eq(a, b)
    return a == b


def as_graph_value(run):
    """the observation as a graph *value*: node iteration order dropped, every edge written from its smaller to its larger
    key (the recorded descriptor pair turned with it), edges sorted.  Used where the caller's way of building the base
    graph legitimately changes iteration order but must not change the graph."""
    out = {}
    for part in ('meta', 'mol'):
        g = run[part]
        edges = []
        for e in g['edges']:
            a, b = e[0], e[1]
            rest = list(e[2:])
            if a > b:
                a, b = b, a
                if len(rest) > 1 and rest[1] is not None:
                    rest[1] = list(reversed(rest[1]))
            edges.append([a, b] + rest)
        out[part] = {'nodes': {k: g['nodes'][k] for k in sorted(g['nodes'])}, 'edges': sorted(edges, key=lambda e: (e[0], e[1]))}
    return out


class C12(core.Prop):
    ID = 'C12'
    FUNCTIONS = ['sort_nodes_by_attr', 'set_atom_names_atomistic', 'merge_graphs', 'from_string', 'from_graph', 'from_fragment_dicts',
                 'read_fragments', 'read_fragment_smiles', 'read_fragment_cgsmiles', '_parse_dialect_string', 'resolve',
                 'resolve_disconnected_molecule', 'annotate_fragments', 'edges_from_bonding_descrpt']
    STUBS = ['iteration over any set/frozenset in the rewritten code whose elements are not all int follows a solver-chosen order mode '
             '(insertion / reversed / rotated), chosen independently for the first and the second resolver run of the history (= two '
             'interpreter processes with different hash seeds); occurrences are counted in the evidence',
             're matcher (symx)', 'compatible(): summarised', 'pysmiles/networkx native (assumed order-deterministic)']
    ASSUMPTIONS = ['"same input" histories are run inside one path: from_string twice, from_graph, from_fragment_dicts twice with the *same* '
                   'fragment dict objects, and every permutation of the definitions in the fragment block (<= 3 definitions)',
                   'separate processes / hash seeds are represented only by the set-iteration model above']
    OUTSIDE = ['separate interpreter processes are run only when a counterexample is replayed (6 hash seeds)', 'shared atoms (C10) in the contiguity clause']
    BOUNDS = {
        'quick': 'C01 quick cases (first rendering) + %d coarse strings with symbolic labels; history of 6 resolver runs per path' % len(CG_TEXTS),
        'thorough': 'C01 thorough cases <= 7 heavy atoms (renderings 0 and 1) + coarse strings with label length 1-2',
    }
    LEVEL_TEXT = ('Bounded: per case one symbolic path performs a history of resolver constructions and calls that share fragment libraries; '
                  'z3 decides for all descriptor kinds/labels that numbering is canonical (keys 0..n-1 sorted by membership, contiguous blocks, '
                  'element+index names unique per coarse node), that all runs return equal graphs, and that libraries and default-argument '
                  'objects are unchanged.')
    TECHNIQUE = 'symbolic execution of call histories over shared fragment libraries; equality-of-runs and snapshot oracle; z3'
    MAX_PATHS = 3000

    _mode = {}
    _run_index = [0]
    _set_iters = [0]

    def setup_shadow(self, SH):
        install_summaries(SH)
        self._set_iters = [0]

        self._mode = {}
        self._run_index = [0]

        def hook(items):
            if all(isinstance(i, int) and not isinstance(i, bool) for i in items):
                return items
            self._set_iters[0] += 1
            if len(items) <= 1:
                return items
            # Model of hash-seed dependent iteration: within one interpreter process the order of a set is a fixed
            # function of its contents; another process may see another order.  Each resolver run of the history
            # stands for one process: run 0 and run 1 get independent solver-chosen modes (insertion order /
            # reversed / rotated by one), the remaining runs share run 0's mode.
            key = 0 if self._run_index[0] != 1 else 1
            if key not in self._mode:
                self._mode[key] = int(symx.sym_int('set_order_mode_run%d' % key, 0, 2))
            m = self._mode[key]
            if m == 1:
                return list(reversed(items))
            if m == 2:
                return items[1:] + items[:1]
            return items
        symx.RT.set_order_hook = hook

    def extra_counts(self):
        n = self._set_iters[0]
        self._set_iters[0] = 0
        return {'iterations_over_sets_with_non_int_elements': n}

    def shapes(self, tier):
        from .c01 import PROP as C01P
        out = []
        mc = C01P.shapes(tier)
        if tier == 'quick':
            mc = [s for s in mc if s['opts'] == OPT_VARIANTS[0]]
        else:
            mc = [s for s in mc if s['opts'] in (OPT_VARIANTS[0], OPT_VARIANTS[1]) and len(gm.parse_smiles(s['smiles']).atoms) <= 7]
        for s in mc:
            out.append({'mode': 'mol', 'case': s})
        for i in range(len(CG_TEXTS)):
            for ll in ((1,) if tier == 'quick' else (1, 2)):
                out.append({'mode': 'cg', 'idx': i, 'lablen': ll})
        for i in range(len(AA_TEXTS)):
            for ll in ((1,) if tier == 'quick' else (0, 1, 2)):
                out.append({'mode': 'aatext', 'idx': i, 'lablen': ll})
        # shared atoms (no contiguity clause): keys must still be 0..n-1 sorted by membership
        from .c10 import PROP as C10P
        sc = [s for s in C10P.shapes(tier) if s.get('mode') != 'coarse']      # (shared aromatic atoms: known finding of C10)
        for s in sc[::(12 if tier == 'quick' else 20)]:
            out.append({'mode': 'mol', 'case': s, 'shared': True})
        return out

    def build(self, shape):
        if shape['mode'] == 'mol':
            r = pl.render_case(shape['case'])
            return {'base': r.base_text, 'frag': r.frag_text, 'perms': r.frag_perms}
        base, frag = (CG_TEXTS if shape['mode'] == 'cg' else AA_TEXTS)[shape['idx']]
        lab = SymStr([sym_alnum('l%d' % j) for j in range(shape['lablen'])])
        parts = frag.split('@l')
        ftext = cat(*[x for i, p in enumerate(parts) for x in ((p, lab) if i < len(parts) - 1 else (p,))])
        # permutations of the definitions
        inner = SymStr.lift(ftext)._chs[1:-1]
        defs, cur = [], []
        for it in inner:
            if isinstance(it, str) and it == ',':
                defs.append(cur)
                cur = []
            else:
                cur.append(it)
        defs.append(cur)
        import itertools
        perms = []
        for p in list(itertools.permutations(range(len(defs))))[:6]:
            items = []
            for n, i in enumerate(p):
                if n:
                    items.append(',')
                items.extend(defs[i])
            perms.append(cat('{', items, '}'))
        return {'base': base, 'frag': ftext, 'perms': perms}

    def execute(self, M, shape, inp):
        aa = shape['mode'] in ('mol', 'aatext')
        R = M.resolve.MoleculeResolver

        def obs_of(meta, mol):
            return {'meta': pl.meta_data(meta), 'mol': pl.graph_data(mol)}

        def history():
            text = cat(inp['base'], '.', inp['frag'])
            runs = []
            self._mode.clear()
            self._run_index[0] = 0
            runs.append(obs_of(*R.from_string(text, last_all_atom=aa).resolve()))
            self._run_index[0] = 1
            runs.append(obs_of(*R.from_string(text, last_all_atom=aa).resolve()))
            self._run_index[0] = 2
            mg = M.read_cgsmiles.read_cgsmiles(inp['base'])
            runs.append(obs_of(*R.from_graph(inp['frag'], mg, last_all_atom=aa).resolve()))
            # a base graph with the same keys, attributes and edges, built by the caller in another order
            runs.append(obs_of(*R.from_graph(inp['frag'], pl.permuted_base_graph(M, inp['base'], 'graph_rev'), last_all_atom=aa).resolve()))
            dicts = R.read_fragment_strings([inp['frag']], last_all_atom=aa)
            snap0 = [{k: pl.graph_data(g, keys=pl.NODE_KEYS + ('bonding', 'hcount', 'ez_isomer_class')) for k, g in d.items()} for d in dicts]
            runs.append(obs_of(*R.from_fragment_dicts(inp['base'], dicts, last_all_atom=aa).resolve()))
            runs.append(obs_of(*R.from_fragment_dicts(inp['base'], dicts, last_all_atom=aa).resolve()))
            snap1 = [{k: pl.graph_data(g, keys=pl.NODE_KEYS + ('bonding', 'hcount', 'ez_isomer_class')) for k, g in d.items()} for d in dicts]
            for p in inp['perms']:
                runs.append(obs_of(*R.from_string(cat(inp['base'], '.', p), last_all_atom=aa).resolve()))
            # functions with mutable default arguments, called the way a library user may call them
            M.pysmiles_utils.read_fragment_smiles('C[H]', 'X')
            M.pysmiles_utils.read_fragment_smiles('CO', 'Y')
            M.cgsmiles_utils.read_fragment_cgsmiles('[#A][#B]', 'X')
            M.dialects._fragment_node_parser('0.5')
            M.dialects.parse_graph_base_node('A;1')
            defaults = [list(M.pysmiles_utils.read_fragment_smiles.__defaults__),
                        list(M.cgsmiles_utils.read_fragment_cgsmiles.__defaults__),
                        [d for d in M.dialects._parse_dialect_string.__defaults__ if isinstance(d, dict)]]
            return {'runs': runs, 'snap0': snap0, 'snap1': snap1, 'defaults': defaults}
        return core.guard(history)

    def oracle(self, shape, inp, obs):
        if obs[0] != 'ok':
            return [('accepted', False)]
        o = obs[1]
        runs = o['runs']
        cl = [('accepted', True)]
        first = runs[0]
        names = ['from_string_again', 'from_graph', 'from_graph_built_in_reverse_order', 'from_fragment_dicts',
                 'from_fragment_dicts_shared_again'] + ['definitions_permuted'] * (len(runs) - 6)
        for nm, r in zip(names, runs[1:]):
            if nm == 'from_graph_built_in_reverse_order':
                # with shared atoms the surviving copy, and with it the numbering, follows the order in which the caller
                # inserted the coarse nodes (observed on the pinned tree); the property does not quantify over insertion
                # orders of a shared-atom description, so that case is not judged
                # (nor are the templates whose descriptors are ambiguous by design: which of two equally labelled
                # descriptors is used first follows the edge order of the base graph)
                if shape['mode'] == 'mol' and not any(len(set(d.get('fragid', []))) > 1 for d in first['mol']['nodes'].values()):
                    cl.append(('same_result_' + nm, deep_eq(as_graph_value(first), as_graph_value(r))))
            else:
                cl.append(('same_result_' + nm, deep_eq(first, r)))
        cl.append(('fragment_library_unmodified', deep_eq(o['snap0'], o['snap1'])))
        cl.append(('default_arguments_unmodified', all(d == {} for grp in o['defaults'] for d in grp)))
        has_shared = bool(shape.get('shared')) or any('!' in str(x) for x in [inp.get('frag')]) and '!' in ''.join(
            i if isinstance(i, str) else '?' for i in symx.SymStr.lift(inp['frag'])._chs)
        cl += numbering_clauses(first, all_atom=(shape['mode'] in ('mol', 'aatext')), shared=has_shared)
        return cl

    def skip_validation(self, shape, inp):
        # a path on which the set-order model was exercised describes several interpreter processes at once;
        # the single real process of the witness run realises only one of the orders
        return bool(self._mode)

    def replay_extra(self, shape, cinp, clause=None):
        """concrete replay only: the same input resolved in separate interpreter processes under different hash seeds"""
        if clause != 'same_result_from_string_again':     # the only run with its own set-order mode (= another process)
            return []
        import subprocess
        import sys as _sys
        aa = shape['mode'] in ('mol', 'aatext')
        text = cinp['base'] + '.' + cinp['frag']
        prog = ("import json,sys\nsys.path.insert(0, %r)\nimport os\nos.environ.setdefault('PBR_VERSION','0.0.0')\n"
                "from cgsmiles.resolve import MoleculeResolver as R\n"
                "meta, mol = R.from_string(%r, last_all_atom=%r).resolve()\n"
                "print(json.dumps([sorted((n, sorted((k, repr(v)) for k, v in d.items() if k != 'graph')) for n, d in mol.nodes(data=True)),"
                " sorted((min(a,b), max(a,b), repr(sorted(d.items()))) for a, b, d in mol.edges(data=True))]))\n") % (
                    __import__('vf.loader', fromlist=['x']).REPO, text, aa)
        dumps = set()
        for seed in range(6):
            env = dict(__import__('os').environ, PYTHONHASHSEED=str(seed), PBR_VERSION='0.0.0')
            p = subprocess.run([_sys.executable, '-c', prog], stdout=subprocess.PIPE, stderr=subprocess.DEVNULL, text=True, env=env, timeout=120)
            dumps.add(p.stdout.strip() if p.returncode == 0 else 'exit %d' % p.returncode)
        return [('identical_dump_across_processes_with_hash_seeds_0_to_5', len(dumps) == 1)]

    def classify(self, shape, cinp, cobs, clauses):
        # known finding: with shared atoms the atom names are not unique / not element+index within a coarse node
        # (a shared atom is named once per coarse node it belongs to, the last name wins).
        # Signature: only the atom-name clause fails and every coarse node whose names are off contains an atom
        # that belongs to more than one coarse node.
        if clauses != ['atomnames_element_plus_running_index'] or cobs[0] != 'ok':
            return None
        run = cobs[1]['runs'][0]
        mol, meta = run['mol'], run['meta']
        for k, d in meta['nodes'].items():
            mem = sorted(d.get('_members', []))
            off = any(mol['nodes'][m].get('atomname') != '%s%d' % (mol['nodes'][m].get('element'), i) for i, m in enumerate(mem))
            if off and not any(len(set(mol['nodes'][m].get('fragid', []))) > 1 for m in mem):
                return None
        return 'C12-shared-atom-names'

    def sample(self, shape, cinp):
        return [cinp['base'], cinp['frag']]

    MUTANTS = {
        'template_attributes_shared': {'graph_utils': ("        new_atom = copy.deepcopy(target_graph.nodes[node])", "        new_atom = target_graph.nodes[node]")},
        'sort_by_fragname': {'resolve': ('self.molecule = sort_nodes_by_attr(self.molecule, sort_attr=("fragid"))',
                                         'self.molecule = sort_nodes_by_attr(self.molecule, sort_attr=("fragname"))')},
        'default_dict_polluted': {'pysmiles_utils': ("    if smiles_str == 'H':", "    attributes.setdefault(0, {})\n    if smiles_str == 'H':")},
    }


def numbering_clauses(run, all_atom=True, shared=False):
    mol, meta = run['mol'], run['meta']
    cl = []
    keys = mol['order']
    n = len(keys)
    cl.append(('node_keys_0_to_n', sorted(keys) == list(range(n))))
    if sorted(keys) != list(range(n)):
        return cl
    fr = [mol['nodes'][k].get('fragid') for k in range(n)]
    cl.append(('sorted_by_membership', all(fr[i] <= fr[i + 1] for i in range(n - 1))))
    if not shared:
        # contiguous blocks in base-graph order
        seq = [f[0] for f in fr if f]
        blocks = [seq[0]] if seq else []
        for x in seq[1:]:
            if x != blocks[-1]:
                blocks.append(x)
        cl.append(('contiguous_blocks_in_base_order', blocks == sorted(set(seq)) and all(len(f) == 1 for f in fr)))
    if all_atom:
        ok = True
        for k, d in meta['nodes'].items():
            mem = d.get('_members', [])
            nm = [mol['nodes'][m].get('atomname') for m in mem]
            if len(set(nm)) != len(nm):
                ok = False
            for idx, m in enumerate(sorted(mem)):
                if mol['nodes'][m].get('atomname') != '%s%d' % (mol['nodes'][m].get('element'), idx):
                    ok = False
        cl.append(('atomnames_element_plus_running_index', ok))
    return cl


PROP = C12()

# shape families added after the first complete pass (DESIGN 8.6-8.11); appended to the bounds written into the evidence
BOUNDS_ADDED = '; plus: from_graph with the base graph built in reverse order (compared as graph values; unambiguous cases without shared atoms), zero-order / virtual-node / 11-12 node templates'
PROP.BOUNDS = {k: v + BOUNDS_ADDED for k, v in PROP.BOUNDS.items()}
