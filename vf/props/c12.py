"""C12 -- output numbering is canonical and results depend on the input alone."""
import copy

from .. import core, gen_graph as gg, gen_mol as gm, pipeline as pl, symx
from ..symx import SymStr, band, cat, sym_alnum, sym_char
from .c01 import install_summaries, OPT_VARIANTS

CG_TEXTS = [
    ('{[#A][#B][#A]}', '{#A=[$@l][#P][#Q][$@l],#B=[$@l][#R]1[#S][#T]1[$@l]}'),
    ('{[#A]([#B])[#B]}', '{#A=[>@l][#P]([#Q])[>@l][>@l],#B=[<@l][#R][#S]}'),
    ('{[#A]1[#B][#C]1}', '{#A=[$@l][#P][$@l],#B=[$@l][#Q][#R][$@l],#C=[$@l][#S][$@l]}'),
]


def deep_eq(a, b):
    """equality of two plain-data observations; symbolic leaves give a symbolic condition"""
    if symx.is_sym(a) or symx.is_sym(b):
        return gg.val_eq(a, b) if not isinstance(a, SymStr) and not isinstance(b, SymStr) else (a == b)
    if isinstance(a, dict) and isinstance(b, dict):
        if list(a.keys()) != list(b.keys()):
            if sorted(map(repr, a.keys())) != sorted(map(repr, b.keys())):
                return False
        return band(*[deep_eq(a[k], b[k]) for k in a])
    if isinstance(a, (list, tuple)) and isinstance(b, (list, tuple)):
        if len(a) != len(b):
            return False
        return band(*[deep_eq(x, y) for x, y in zip(a, b)])
    if isinstance(a, float) or isinstance(b, float):
        return gg.val_eq(a, b)
    return a == b


class C12(core.Prop):
    ID = 'C12'
    FUNCTIONS = ['sort_nodes_by_attr', 'set_atom_names_atomistic', 'merge_graphs', 'from_string', 'from_graph', 'from_fragment_dicts',
                 'read_fragments', 'read_fragment_smiles', 'read_fragment_cgsmiles', '_parse_dialect_string', 'resolve',
                 'resolve_disconnected_molecule', 'annotate_fragments', 'edges_from_bonding_descrpt']
    STUBS = ['iteration over any set/frozenset in the rewritten code whose elements are not all int is a solver-chosen permutation '
             '(the only channel through which PYTHONHASHSEED can reach these modules); occurrences are counted in the evidence',
             're matcher (symx)', 'compatible(): summarised', 'pysmiles/networkx native (assumed order-deterministic)']
    ASSUMPTIONS = ['"same input" histories are run inside one path: from_string twice, from_graph, from_fragment_dicts twice with the *same* '
                   'fragment dict objects, and every permutation of the definitions in the fragment block (<= 3 definitions)',
                   'separate processes / hash seeds are represented only by the set-iteration model above']
    OUTSIDE = ['literally separate interpreter processes; byte-identical dumps across processes', 'shared atoms (C10) in the contiguity clause']
    BOUNDS = {
        'quick': 'C01 quick cases (first rendering) + %d coarse strings with symbolic labels; history of 6 resolver runs per path' % len(CG_TEXTS),
        'thorough': 'C01 thorough cases <= 7 heavy atoms (renderings 0 and 1) + coarse strings with label length 1-2',
    }
    LEVEL_TEXT = ('Bounded: per case one symbolic path performs a history of resolver constructions and calls that share fragment libraries; '
                  'z3 decides for all descriptor kinds/labels that numbering is canonical (keys 0..n-1 sorted by membership, contiguous blocks, '
                  'element+index names unique per coarse node), that all runs return equal graphs, and that libraries and default-argument '
                  'objects are unchanged.')
    TECHNIQUE = 'symbolic execution of call histories over shared fragment libraries; equality-of-runs and snapshot oracle; z3'
    MAX_PATHS = 3000

    def setup_shadow(self, SH):
        install_summaries(SH)
        self._set_iters = [0]

        def hook(items):
            if all(isinstance(i, int) and not isinstance(i, bool) for i in items):
                return sorted(items) if False else items
            self._set_iters[0] += 1
            if len(items) > 4:
                raise symx.Unsupported("set of %d non-int elements iterated" % len(items))
            # solver-chosen permutation
            out = []
            pool = list(items)
            while pool:
                i = int(symx.sym_int('setperm%d_%d' % (self._set_iters[0], len(pool)), 0, len(pool) - 1)) if len(pool) > 1 else 0
                out.append(pool.pop(i))
            return out
        symx.RT.set_order_hook = hook

    def extra_counts(self):
        n = self._set_iters[0]
        self._set_iters[0] = 0
        return {'iterations_over_sets_with_non_int_elements': n}

    def shapes(self, tier):
        from .c01 import PROP as C01P
        out = []
        mc = C01P.shapes(tier)
        if tier == 'quick':
            mc = [s for s in mc if s['opts'] == OPT_VARIANTS[0]]
        else:
            mc = [s for s in mc if s['opts'] in (OPT_VARIANTS[0], OPT_VARIANTS[1]) and len(gm.parse_smiles(s['smiles']).atoms) <= 7]
        for s in mc:
            out.append({'mode': 'mol', 'case': s})
        for i in range(len(CG_TEXTS)):
            for ll in ((1,) if tier == 'quick' else (1, 2)):
                out.append({'mode': 'cg', 'idx': i, 'lablen': ll})
        return out

    def build(self, shape):
        if shape['mode'] == 'mol':
            r = pl.render_case(shape['case'])
            return {'base': r.base_text, 'frag': r.frag_text, 'perms': r.frag_perms}
        base, frag = CG_TEXTS[shape['idx']]
        lab = SymStr([sym_alnum('l%d' % j) for j in range(shape['lablen'])])
        parts = frag.split('@l')
        ftext = cat(*[x for i, p in enumerate(parts) for x in ((p, lab) if i < len(parts) - 1 else (p,))])
        # permutations of the definitions
        inner = SymStr.lift(ftext)._chs[1:-1]
        defs, cur = [], []
        for it in inner:
            if isinstance(it, str) and it == ',':
                defs.append(cur)
                cur = []
            else:
                cur.append(it)
        defs.append(cur)
        import itertools
        perms = []
        for p in list(itertools.permutations(range(len(defs))))[:6]:
            items = []
            for n, i in enumerate(p):
                if n:
                    items.append(',')
                items.extend(defs[i])
            perms.append(cat('{', items, '}'))
        return {'base': base, 'frag': ftext, 'perms': perms}

    def execute(self, M, shape, inp):
        aa = shape['mode'] == 'mol'
        R = M.resolve.MoleculeResolver

        def obs_of(meta, mol):
            return {'meta': pl.meta_data(meta), 'mol': pl.graph_data(mol)}

        def history():
            text = cat(inp['base'], '.', inp['frag'])
            runs = []
            runs.append(obs_of(*R.from_string(text, last_all_atom=aa).resolve()))
            runs.append(obs_of(*R.from_string(text, last_all_atom=aa).resolve()))
            mg = M.read_cgsmiles.read_cgsmiles(inp['base'])
            runs.append(obs_of(*R.from_graph(inp['frag'], mg, last_all_atom=aa).resolve()))
            dicts = R.read_fragment_strings([inp['frag']], last_all_atom=aa)
            snap0 = [{k: pl.graph_data(g, keys=pl.NODE_KEYS + ('bonding', 'hcount', 'ez_isomer_class')) for k, g in d.items()} for d in dicts]
            runs.append(obs_of(*R.from_fragment_dicts(inp['base'], dicts, last_all_atom=aa).resolve()))
            runs.append(obs_of(*R.from_fragment_dicts(inp['base'], dicts, last_all_atom=aa).resolve()))
            snap1 = [{k: pl.graph_data(g, keys=pl.NODE_KEYS + ('bonding', 'hcount', 'ez_isomer_class')) for k, g in d.items()} for d in dicts]
            for p in inp['perms']:
                runs.append(obs_of(*R.from_string(cat(inp['base'], '.', p), last_all_atom=aa).resolve()))
            # functions with mutable default arguments, called the way a library user may call them
            M.pysmiles_utils.read_fragment_smiles('C[H]', 'X')
            M.pysmiles_utils.read_fragment_smiles('CO', 'Y')
            M.cgsmiles_utils.read_fragment_cgsmiles('[#A][#B]', 'X')
            M.dialects._fragment_node_parser('0.5')
            M.dialects.parse_graph_base_node('A;1')
            defaults = [list(M.pysmiles_utils.read_fragment_smiles.__defaults__),
                        list(M.cgsmiles_utils.read_fragment_cgsmiles.__defaults__),
                        [d for d in M.dialects._parse_dialect_string.__defaults__ if isinstance(d, dict)]]
            return {'runs': runs, 'snap0': snap0, 'snap1': snap1, 'defaults': defaults}
        return core.guard(history)

    def oracle(self, shape, inp, obs):
        if obs[0] != 'ok':
            return [('accepted', False)]
        o = obs[1]
        runs = o['runs']
        cl = [('accepted', True)]
        first = runs[0]
        names = ['from_string_again', 'from_graph', 'from_fragment_dicts', 'from_fragment_dicts_shared_again'] + \
                ['definitions_permuted'] * (len(runs) - 5)
        for nm, r in zip(names, runs[1:]):
            cl.append(('same_result_' + nm, deep_eq(first, r)))
        cl.append(('fragment_library_unmodified', deep_eq(o['snap0'], o['snap1'])))
        cl.append(('default_arguments_unmodified', all(d == {} for grp in o['defaults'] for d in grp)))
        cl += numbering_clauses(first, all_atom=(shape['mode'] == 'mol'))
        return cl

    def sample(self, shape, cinp):
        return [cinp['base'], cinp['frag']]

    MUTANTS = {
        'template_attributes_shared': {'graph_utils': ("        new_atom = copy.deepcopy(target_graph.nodes[node])", "        new_atom = target_graph.nodes[node]")},
        'sort_by_fragname': {'resolve': ('self.molecule = sort_nodes_by_attr(self.molecule, sort_attr=("fragid"))',
                                         'self.molecule = sort_nodes_by_attr(self.molecule, sort_attr=("fragname"))')},
        'default_dict_polluted': {'pysmiles_utils': ("    if smiles_str == 'H':", "    attributes.setdefault(0, {})\n    if smiles_str == 'H':")},
    }


def numbering_clauses(run, all_atom=True, shared=False):
    mol, meta = run['mol'], run['meta']
    cl = []
    keys = mol['order']
    n = len(keys)
    cl.append(('node_keys_0_to_n', sorted(keys) == list(range(n))))
    if sorted(keys) != list(range(n)):
        return cl
    fr = [mol['nodes'][k].get('fragid') for k in range(n)]
    cl.append(('sorted_by_membership', all(fr[i] <= fr[i + 1] for i in range(n - 1))))
    if not shared:
        # contiguous blocks in base-graph order
        seq = [f[0] for f in fr if f]
        blocks = [seq[0]] if seq else []
        for x in seq[1:]:
            if x != blocks[-1]:
                blocks.append(x)
        cl.append(('contiguous_blocks_in_base_order', blocks == sorted(set(seq)) and all(len(f) == 1 for f in fr)))
    if all_atom:
        ok = True
        for k, d in meta['nodes'].items():
            mem = d.get('_members', [])
            nm = [mol['nodes'][m].get('atomname') for m in mem]
            if len(set(nm)) != len(nm):
                ok = False
            for idx, m in enumerate(sorted(mem)):
                if mol['nodes'][m].get('atomname') != '%s%d' % (mol['nodes'][m].get('element'), idx):
                    ok = False
        cl.append(('atomnames_element_plus_running_index', ok))
    return cl


PROP = C12()
