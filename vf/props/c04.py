"""C04 -- the graph reader implements the documented grammar."""
import itertools

from .. import core, gen_graph as gg, symx
from ..symx import ENG, band


class C04(core.Prop):
    ID = 'C04'
    CROSSHAIR_KERNELS = ['reader_kernels.py']
    FUNCTIONS = ['read_cgsmiles', '_find_next_character',
                 '_parse_dialect_string', 'check_and_cast_types']
    STUBS = ['re.finditer on a symbolic string -> backtracking matcher over re._parser tree (symx)',
             'inspect.Signature.bind, networkx: run natively']
    ASSUMPTIONS = ['node names are 1-3 characters over [0-9A-Za-z]',
                   'ring markers that are open at the same time denote different integers (grammar side condition)',
                   'numeric annotation values have the spelling [+-]d.d (other spellings: C14)',
                   'Python float arithmetic read as exact real arithmetic']
    OUTSIDE = ['strings beyond the size bound (no sampled claim is made)',
               'a bond symbol before a *closing* ring marker, a digit marker directly after %nn, '
               'a bond symbol directly after |n on a node (undocumented positions)',
               'multipliers (C05), malformed strings (C20)']
    BOUNDS = {
        'quick': 'all ordered trees <= 4 nodes in both parenthesisations x every subset of bond-order positions '
                 '(symbol symbolic over . - = # $) + every single ring bond on trees of 3-4 nodes (digit and %nn, '
                 'with and without ring bond order) + two-ring combinations on 4-node chains + annotation forms; '
                 'nesting <= 3',
        'thorough': 'all ordered trees <= 6 nodes (all order-position subsets up to 5 nodes, all-present/all-absent/'
                    'alternating at 6) + all single rings <= 5 nodes + all ring pairs <= 5 nodes incl. mixed digit/%nn + '
                    'three simultaneously open rings on 6-node chains + every annotation form at every node <= 3 nodes; nesting <= 3',
    }

    LEVEL_TEXT = ('Bounded: for every grammar skeleton within the size bound, z3 decides on every feasible path of the '
                  'real read_cgsmiles source that the returned graph equals the graph the string denotes, for ALL node '
                  'names, bond-order symbols, ring marker digits and annotation values at once; counterexamples are replayed. '
                  'Nothing is claimed beyond the bound (no random tail).')
    TECHNIQUE = 'symbolic execution of read_cgsmiles over skeleton x symbolic holes, oracle by construction, z3'

    # ------------------------------------------------------------------
    def shapes(self, tier):
        out = []
        nmax_all = 4 if tier == 'quick' else 5
        nmax = 4 if tier == 'quick' else 6

        def with_orders(base, patterns):
            for pat in patterns:
                s = gg.copy.deepcopy(base)
                els = list(gg.elems(s['chain']))
                for el, p in zip(els[1:], pat):
                    el['ord'] = ('o%d' % el['v']) if p == 's' else None
                out.append(s)

        for n in range(1, nmax + 1):
            for base in gg.tree_shapes(n, max_nest=3):
                k = n - 1
                if n <= nmax_all:
                    pats = list(itertools.product('ns', repeat=k))
                else:
                    pats = {tuple('s' * k), tuple('n' * k), tuple('sn' * k)[:k], tuple('ns' * k)[:k]}
                with_orders(base, sorted(pats))
        # ring bonds
        nring = 4 if tier == 'quick' else 5
        for n in range(3, nring + 1):
            for base in gg.tree_shapes(n, max_nest=2):
                cands = gg.ring_candidates(base['parent'])
                for (i, j) in cands:
                    for kind in 'dp':
                        for rord in 'ns':
                            s = gg.copy.deepcopy(base)
                            s['rings'] = [[i, j, kind, rord]]
                            for el in list(gg.elems(s['chain']))[1:]:
                                el['ord'] = ('o%d' % el['v']) if rord == 's' else None
                            out.append(s)
                if n >= 4:
                    pairs = list(itertools.combinations(cands, 2))
                    if tier == 'quick':
                        pairs = pairs[:2] if len(base['chain']) == n else []
                    for (r1, r2) in pairs:
                        for kinds in (('d', 'd'), ('d', 'p'), ('p', 'd'), ('p', 'p')):
                            s = gg.copy.deepcopy(base)
                            s['rings'] = [[r1[0], r1[1], kinds[0], 's'], [r2[0], r2[1], kinds[1], 'n']]
                            out.append(s)
        if tier == 'thorough':
            # three simultaneously open rings on a 6-node chain and on a branched 6-node tree
            for base in gg.tree_shapes(6, max_nest=1)[:6]:
                cands = gg.ring_candidates(base['parent'])
                triples = [t for t in itertools.combinations(cands, 3)][:12]
                for t in triples:
                    for kinds in ('ddd', 'dpd', 'ppp'):
                        s = gg.copy.deepcopy(base)
                        s['rings'] = [[a, b, k, 's'] for (a, b), k in zip(t, kinds)]
                        out.append(s)
        # two rings one after the other: the second may reuse the marker of the first, in either spelling
        for n, rr in ((5, [(0, 2), (2, 4)]), (6, [(0, 2), (3, 5)]), (5, [(0, 2), (1, 4)])):
            chain = [b for b in gg.tree_shapes(n, max_nest=1) if len(b['chain']) == n][0]
            for kinds in (('d', 'd'), ('d', 'p'), ('p', 'd')) if (n == 5 or tier != 'quick') else (('d', 'd'),):
                for rords in (('s', 'n'), ('n', 's')):
                    s = gg.copy.deepcopy(chain)
                    s['rings'] = [[a, b, k, ro] for (a, b), k, ro in zip(rr, kinds, rords)]
                    out.append(s)
        # annotations
        forms = [f for f in gg.ANN_FORMS if f != 'none']
        nann = 2 if tier == 'quick' else 3
        for n in range(1, nann + 1):
            for base in gg.tree_shapes(n, max_nest=1):
                for pos in range(n):
                    for form in forms:
                        s = gg.copy.deepcopy(base)
                        els = list(gg.elems(s['chain']))
                        els[pos]['ann'] = form
                        for el in els[1:]:
                            el['ord'] = 'o%d' % el['v']
                        out.append(s)
        # other spellings of the numbers (everything float() reads is a number: exponents, bare leading/trailing dot)
        for nf in (('ded', '.d') if tier == 'quick' else ('ded', 'de-d', 'd.dE+d', '.d', 'd.', 'dd')):
            for form in ('q_kw', 'qw_pos', 'w_kw'):
                s = gg.copy.deepcopy(gg.tree_shapes(2, max_nest=1)[0])
                els = list(gg.elems(s['chain']))
                els[1]['ann'] = form
                els[1]['ord'] = 'o%d' % els[1]['v']
                s['numform'] = nf
                out.append(s)
        # the same annotation form on two nodes (the two tokens can be spelled identically: caches, shared defaults)
        for form in ('free', 'q_free', 'free_uc', 'wq_kw'):
            for base in gg.tree_shapes(2, max_nest=1) + (gg.tree_shapes(3, max_nest=1) if tier != 'quick' else []):
                s = gg.copy.deepcopy(base)
                els = list(gg.elems(s['chain']))
                els[0]['ann'] = form
                els[-1]['ann'] = form
                for el in els[1:]:
                    el['ord'] = 'o%d' % el['v']
                out.append(s)
        # longer names
        for nl in (2, 3):
            s = gg.copy.deepcopy(gg.tree_shapes(3, 1)[0])
            for el in gg.elems(s['chain']):
                el['nl'] = nl
            out.append(s)
        for s in out:
            s.pop('parent', None)
        return out

    def build(self, shape):
        rec = gg.make_holes(shape, numform=shape.get('numform', 'sd.d'))
        text, conds = gg.render(shape, rec)
        for c in conds:
            symx.ENG.assume(c)
        return {'text': symx.cat('{', text, '}'), 'holes': rec}

    def execute(self, M, shape, inp):
        return core.guard(M.read_cgsmiles.read_cgsmiles, inp['text'])

    def oracle(self, shape, inp, obs):
        if obs[0] != 'ok':
            return [('accepted', False)]
        nodes, edges = gg.denote(shape, inp['holes'])
        return [('accepted', True)] + gg.graph_matches(obs[1], nodes, edges)

    def sample(self, shape, cinp):
        return cinp['text']

    MUTANTS = {
        'ring_order_reset': {'read_cgsmiles': (
            "                    ring_marker = \"\"\n                    ring_bond_order = default_bond_order\n            # we found bond_order",
            "                    ring_marker = \"\"\n            # we found bond_order")},
        'branch_after_order': {'read_cgsmiles': (
            "            elif eon_a+1 < len(pattern) and pattern[eon_a+1] in symbol_to_order:\n                prev_bond_order = symbol_to_order[pattern[eon_a+1]]",
            "            elif eon_a+1 < len(pattern) and pattern[eon_a+1] in '=#$':\n                prev_bond_order = symbol_to_order[pattern[eon_a+1]]")},
        'quadruple_is_three': {'read_cgsmiles': (
            'symbol_to_order = {".": 0, "=": 2, "-": 1, "#": 3, "$": 4}',
            'symbol_to_order = {".": 0, "=": 2, "-": 1, "#": 3, "$": 3}')},
    }


PROP = C04()

# shape families added after the first complete pass; appended to the bounds written into the evidence
BOUNDS_ADDED = "; plus: two rings one after the other on 5-6 node chains (the second may reuse the first one's marker, in either spelling)"
PROP.BOUNDS = {k: v + BOUNDS_ADDED for k, v in PROP.BOUNDS.items()}
