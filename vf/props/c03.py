"""C03 -- inter-fragment bonds follow the base graph and the bonding-descriptor rules."""
import itertools

import networkx as nx

from .. import core, gen_graph as gg, gen_mol as gm, pipeline as pl, symx
from ..symx import SymStr, band, bnot, bor, cat, sym_alnum, sym_char, sym_int
from .c01 import install_summaries, OPT_VARIANTS


# ---- spec-side compatibility (docs/source/syntax/fragments.rst; resolver docstring) ----
def compat_spec(a, b, legacy):
    ka, kb = a[0], b[0]
    same = band(bor(ka == '$', ka == '!'), ka == kb)
    lr = bor(band(ka == '<', kb == '>'), band(ka == '>', kb == '<'))
    if legacy:
        # identical label and equal annotated order (label+order = everything after the kind)
        return band(bor(same, lr), a[1:] == b[1:])
    return bor(same, lr)


def submultiset(consumed, written):
    """consumed (list) is a sub-multiset of written (list): some injective assignment with equal strings"""
    if len(consumed) > len(written):
        return False
    alts = []
    for idxs in itertools.permutations(range(len(written)), len(consumed)):
        alts.append(band(*[c == written[i] for c, i in zip(consumed, idxs)]))
    return bor(*alts) if alts else True


class C03(core.Prop):
    ID = 'C03'
    CROSSHAIR_KERNELS = ['compatible_kernel.py']
    FUNCTIONS = ['compatible', 'match_bonding_descriptors', 'edges_from_bonding_descrpt', 'resolve', 'resolve_disconnected_molecule',
                 'strip_bonding_descriptors', 'merge_graphs']
    STUBS = ['compatible(): summarised per argument pair by nested exploration of its own rewritten source (memoised)',
             're matcher (symx)', 'pysmiles/networkx native']
    ASSUMPTIONS = ['unit drive: the resolver state (coarse graph with per-node fragment graphs carrying descriptor lists, fine graph) is '
                   'constructed directly, as resolve_disconnected_molecule leaves it; every descriptor is a fully symbolic string '
                   'kind (4) + label (fixed length 0-4, alnum) + order digit (1-3); base edge order symbolic 0-4',
                   'compatibility formula of DESIGN.md section 3.1; under the label-insensitive convention either descriptor\'s order is accepted',
                   '"exactly that many" is checked as maximality: when fewer bonds than the edge order were made, no compatible pair is left',
                   'pipeline shapes and the 1x1 unit shapes first drive the same input under the *other* matching convention (history within one process), then the one judged']
    OUTSIDE = ['more than 3 coarse nodes / 2 atoms per node / 2 descriptors per atom in the unit drive',
               'descriptor order digit 0 and labels longer than 4']
    BOUNDS = {
        'quick': 'unit drive: 2 coarse nodes x (1x2, 2x1, 2x2 atoms x descriptors), label length 0-1, both conventions, aromatic flags on/off; '
                 'pipeline: C01 quick cases (first rendering) with labels NOT constrained distinct, both conventions',
        'thorough': 'unit drive: 2 coarse nodes up to 2x2 with label length 0-2 and 3 coarse nodes (chain, triangle) 1x2 / 2x1; pipeline: C01 '
                    'thorough cases <= 7 atoms, label length 0-1, both conventions',
    }
    LEVEL_TEXT = ('Bounded: with every descriptor string fully symbolic z3 decides on every path of the real matching code that bonds lie '
                  'across base edges, never exceed the edge order (none for 0), are maximal, join atoms that carried the recorded descriptors, '
                  'satisfy the documented compatibility formula, carry the annotated order (1.5 between aromatic atoms) and consume each written '
                  'descriptor at most once.')
    TECHNIQUE = 'symbolic execution of the descriptor matching (unit drive on constructed resolver state + pipeline), relational oracle vs spec formula, z3'
    MAX_PATHS = 60000

    def setup_shadow(self, SH):
        install_summaries(SH)

    def shapes(self, tier):
        out = []
        if tier == 'quick':
            cfgs = [(2, 'chain', 1, 2, 1), (2, 'chain', 2, 1, 1), (2, 'chain', 1, 1, 0), (2, 'chain', 2, 2, 0), (2, 'chain', 1, 1, 3)]
        else:
            cfgs = [(2, 'chain', 1, 2, 1), (2, 'chain', 2, 1, 1), (2, 'chain', 1, 1, 0), (2, 'chain', 2, 2, 0), (2, 'chain', 1, 2, 2),
                    (2, 'chain', 2, 2, 1), (3, 'chain', 1, 2, 1), (3, 'tri', 1, 2, 1), (3, 'chain', 2, 1, 1), (2, 'chain', 1, 1, 2), (2, 'chain', 1, 1, 4)]
        for (nc, topo, na, nd, ll) in cfgs:
            for legacy in (True, False):
                for arom in ((False,) if (na * nd > 2 or nc > 2) else (False, True)):
                    out.append({'mode': 'unit', 'nc': nc, 'topo': topo, 'na': na, 'nd': nd, 'll': ll, 'legacy': legacy, 'arom': arom,
                                'omax': 4 if na * nd * nc <= 4 else 2})
                if nd == 2 and (tier != 'quick' or na == 1):
                    # the same unit at a level that is not the atomistic one (beads: no element, no hydrogen count)
                    out.append({'mode': 'unit', 'nc': nc, 'topo': topo, 'na': na, 'nd': nd, 'll': ll, 'legacy': legacy, 'arom': False,
                                'omax': 4 if na * nd * nc <= 4 else 2, 'coarse': True})
        # a single-hydrogen fragment in the middle of a chain: its one descriptor serves one bond only
        for legacy in (True, False):
            out.append({'mode': 'unit', 'nc': 3, 'topo': 'chain', 'na': 1, 'nd': 1, 'll': 1, 'legacy': legacy, 'arom': False, 'omax': 2, 'hmid': True})
            if tier != 'quick':
                out.append({'mode': 'unit', 'nc': 3, 'topo': 'tri', 'na': 1, 'nd': 1, 'll': 0, 'legacy': legacy, 'arom': False, 'omax': 2, 'hmid': True})
        # descriptors whose labels differ in length (a labelled one against an unlabelled one, ...)
        for (nc, topo, na, nd, ll) in ([(2, 'chain', 1, 1, 1), (2, 'chain', 1, 2, 1)] if tier == 'quick' else
                                       [(2, 'chain', 1, 1, 1), (2, 'chain', 1, 2, 1), (2, 'chain', 2, 1, 1), (2, 'chain', 1, 2, 2), (3, 'chain', 1, 2, 1)]):
            for legacy in (True, False):
                out.append({'mode': 'unit', 'nc': nc, 'topo': topo, 'na': na, 'nd': nd, 'll': ll, 'legacy': legacy, 'arom': False,
                            'omax': 3, 'mixed': True})
        from .c01 import PROP as C01P
        mc = C01P.shapes(tier)
        if tier == 'quick':
            mc = [s for s in mc if s['opts'] == OPT_VARIANTS[0]]
        else:
            mc = [s for s in mc if s['opts'] in (OPT_VARIANTS[0],) and len(gm.parse_smiles(s['smiles']).atoms) <= 7]
        for s in mc:
            for legacy in (True, False):
                for ll in ((1,) if tier == 'quick' else (0, 1)):
                    out.append({'mode': 'pipe', 'case': s, 'legacy': legacy, 'll': ll})
        # the same pipeline entered through the other constructors (fragments read separately; base graph handed over)
        pipes = [x for x in out if x['mode'] == 'pipe']
        for i, x in enumerate([y for y in pipes if y['ll'] == 1 and len(y['case']['cut']) == 1][::(3 if tier == 'quick' else 2)]):
            out.append(dict(x, entry=('dicts', 'graph_rev')[(i // 2) % 2]))
        # ... and base graphs with an edge of order 2 (two cuts between the same two fragments) handed over as a graph
        def multi(c):
            where = {a: bi for bi, b in enumerate(c['blocks']) for a in b}
            keys = [tuple(sorted((where[i], where[j]))) for i, j in c['cut']]
            return len(keys) == 2 and keys[0] == keys[1]
        dbl = [y for y in pipes if y['ll'] == 1 and multi(y['case'])]
        for i, x in enumerate(dbl[::(6 if tier == 'quick' else 4)]):
            out.append(dict(x, entry=('graph_rev', 'graph_rot')[(i // 2) % 2]))
        return out

    # ------------------------------------------------------------------
    def build(self, shape):
        if shape['mode'] == 'pipe':
            r = pl.render_case(shape['case'], label_len=shape['ll'], distinct_labels=False, kinds='$<>',
                               indep_labels=bool(shape.get('entry')) and not shape['legacy'] and shape['ll'] > 0)
            written = {}
            arom_written = {}
            spec = gm.parse_smiles(shape['case']['smiles'])
            for bi, amap in enumerate(r.atom_maps):
                for ti, a in enumerate(amap):
                    ds = r.desc_on.get(a, [])
                    written["%d:%d" % (bi, ti)] = [cat(k, lab, str(int(o)) if o != 1.5 else '1') for (k, lab, o) in ds]
                    arom_written["%d:%d" % (bi, ti)] = bool(spec.atoms[a].get('aromatic'))
            return {'text': r.text, 'written': written, 'arom_written': arom_written}
        desc = {}
        nid = 0
        for c in range(shape['nc']):
            for a in range(shape['na']):
                ds = []
                for d in range(shape['nd']):
                    tag = "c%da%dd%d" % (c, a, d)
                    ll = shape['ll']
                    if shape.get('mixed'):
                        ll = (c + a + d) % 2 + (shape['ll'] if shape['ll'] else 0) * ((c + d) % 2)   # label lengths differ between descriptors
                    ds.append(SymStr([sym_char(tag + 'k', allowed='$!<>')] +
                                     [sym_alnum("%sl%d" % (tag, i)) for i in range(ll)] +
                                     [sym_char(tag + 'o', lo=49, hi=51)]))
                desc[str(nid)] = ds
                nid += 1
        edges = [[0, 1]] if shape['nc'] == 2 else ([[0, 1], [1, 2]] if shape['topo'] == 'chain' else [[0, 1], [1, 2], [0, 2]])
        orders = [sym_int('eo%d' % i, 0, shape['omax']) for i in range(len(edges))]
        return {'desc': desc, 'orders': orders, 'edges': edges}

    def execute(self, M, shape, inp):
        if shape['mode'] == 'pipe':
            # history inside one process: the same string is first resolved under the other matching convention
            core.guard(pl.run_resolver, M, inp['text'], legacy=not shape['legacy'])
            return core.guard(pl.run_resolver, M, inp['text'], legacy=shape['legacy'], entry=shape.get('entry', 'string'))

        def run(legacy=None):
            legacy = shape['legacy'] if legacy is None else legacy
            meta = nx.Graph()
            mol = nx.Graph()
            nid = 0
            for c in range(shape['nc']):
                g = nx.Graph()
                for a in range(shape['na']):
                    ds = inp['desc'][str(nid)]
                    attrs = dict(element='C', hcount=3, fragid=[c])
                    if shape.get('hmid') and c == 1:
                        attrs = dict(element='H', hcount=0, fragid=[c])
                    if shape.get('coarse'):
                        attrs = dict(atomname='B%d' % a, fragname='F', fragid=[c])
                    if shape['arom']:
                        attrs['aromatic'] = True
                    mol.add_node(nid, bonding=list(ds), **attrs)
                    g.add_node(nid, bonding=list(ds), **attrs)
                    nid += 1
                meta.add_node(c, graph=g, fragname='F')
            for (a, b), o in zip(inp['edges'], inp['orders']):
                meta.add_edge(a, b, order=o)
            R = M.resolve.MoleculeResolver
            # through the real constructor (whatever it initialises exists), then put into the state in which
            # resolve_disconnected_molecule leaves it
            res = R(nx.Graph(), [{}], last_all_atom=not shape.get('coarse'), legacy=legacy)
            res.meta_graph, res.molecule, res.legacy = meta, mol, legacy
            res.edges_from_bonding_descrpt(all_atom=not shape.get('coarse'))
            bonds = [[a, b, d.get('order'), list(d['bonding'])] for a, b, d in mol.edges(data=True)]
            left = {n: list(meta.nodes[c]['graph'].nodes[n]['bonding']) for c in meta.nodes for n in meta.nodes[c]['graph'].nodes}
            return {'bonds': bonds, 'left': left}
        if shape['na'] * shape['nd'] == 1:
            core.guard(run, not shape['legacy'])    # same descriptors under the other convention first (same process)
        return core.guard(run)

    # ------------------------------------------------------------------
    def oracle(self, shape, inp, obs):
        if shape['mode'] == 'pipe':
            return self._oracle_pipe(shape, inp, obs)
        if obs[0] != 'ok':
            return [('no_exception', False)]
        legacy = shape['legacy']
        bonds, left = obs[1]['bonds'], obs[1]['left']
        na = shape['na']
        node_of = lambda atom: atom // na
        cl = [('no_exception', True)]
        base = {frozenset(e): o for e, o in zip(inp['edges'], inp['orders'])}
        per_edge = {}
        consumed = {}
        for a, b, order, pair in bonds:
            ca, cb = node_of(a), node_of(b)
            e = frozenset((ca, cb))
            cl.append(('bond_across_base_edge', ca != cb and e in base))
            if ca == cb or e not in base:
                continue
            per_edge[e] = per_edge.get(e, 0) + 1
            # the recorded pair: first element belongs to the first node of the stored edge (a), second to b
            x, y = pair
            cl.append(('pair_compatible', compat_spec(x, y, legacy)))
            wa, wb = inp['desc'][str(a)], inp['desc'][str(b)]
            cl.append(('atoms_carried_descriptors', band(bor(*[x == w for w in wa]), bor(*[y == w for w in wb]))))
            consumed.setdefault(a, []).append(x)
            consumed.setdefault(b, []).append(y)
            ox, oy = x[-1], y[-1]
            if shape['arom']:
                cl.append(('aromatic_bond_order', order == 1.5))
            else:
                digit = lambda s: SymStr.lift(s).to_int()
                cl.append(('bond_order_annotated', bor(order == digit(ox), (False if legacy else order == digit(oy)))))
        # matches that hit an already bonded atom pair collapse into that bond (simple graph): then the number
        # of matches is not visible from the bonds and the maximality clause is not judged
        removed = sum(len(inp['desc'][str(a)]) - len(left[a]) for a in left)
        collapsed = removed != 2 * len(bonds)
        for e, o in base.items():
            n = per_edge.get(e, 0)
            cl.append(('count_not_above_edge_order', n <= o))
            if collapsed:
                continue
            # maximality: fewer bonds than the order only if no compatible pair is left between the two nodes
            ca, cb = sorted(e)
            rest_a = [d for atom in range(ca * na, ca * na + na) for d in left[atom]]
            rest_b = [d for atom in range(cb * na, cb * na + na) for d in left[atom]]
            any_left = bor(*[compat_spec(x, y, legacy) for x in rest_a for y in rest_b])
            cl.append(('maximal', bor(n >= o, bnot(any_left))))
        for atom, cons in consumed.items():
            cl.append(('descriptor_used_once', submultiset(cons, inp['desc'][str(atom)])))
        for atom, rest in left.items():
            w = inp['desc'][str(atom)]
            # (two matches between the same two atoms collapse into one bond of the simple graph, so <=)
            cl.append(('leftover_consistent', band(len(rest) + len(consumed.get(atom, [])) <= len(w), submultiset(rest, w))))
        return cl

    def _oracle_pipe(self, shape, inp, obs):
        if obs[0] != 'ok':
            raise symx.PathAbort()       # ambiguous labels may make the string unresolvable (e.g. kekulisation); not judged here
        legacy = shape['legacy']
        case = shape['case']
        mol, meta = obs[1]['mol'], obs[1]['meta']
        nodes = mol['nodes']
        base = {frozenset((a, b)): o for a, b, o in meta['edges']}
        cl = [('resolved', True)]
        per_edge = {}
        where = {a: bi for bi, b in enumerate(case['blocks']) for a in b}
        cnt = {}
        for (i, j) in case['cut']:
            key = tuple(sorted((where[i], where[j])))
            cnt[key] = cnt.get(key, 0) + 1
        _p, border = pl.base_graph_text(len(case['blocks']), cnt, root=case['opts'].get('root', 0) % len(case['blocks']),
                                        rev=bool(case['opts'].get('rev', 0)))
        used = {}
        for a, b, order, pair in mol['edges']:
            if pair is None:
                # bonds without a recorded pair must be internal to one coarse node (or to a hydrogen)
                fa, fb = nodes[a].get('fragid'), nodes[b].get('fragid')
                cl.append(('unrecorded_bond_is_internal', fa == fb))
                continue
            fa, fb = nodes[a]['fragid'][0], nodes[b]['fragid'][0]
            e = frozenset((fa, fb))
            cl.append(('bond_across_base_edge', fa != fb and e in base))
            per_edge[e] = per_edge.get(e, 0) + 1
            x, y = pair
            c1 = compat_spec(x, y, legacy)
            cl.append(('pair_compatible', c1))
            ok_carry = []
            arom_in = []
            for atom, d, other in ((a, x, y), (b, y, x)):
                mp = nodes[atom].get('mapping')
                key = "%d:%d" % (border[nodes[atom]['fragid'][0]], mp[0][1])
                arom_in.append(inp.get('arom_written', {}).get(key, False))
                w = inp['written'].get(key, [])
                # the stored pair is ordered by the coarse edge, not by (a, b): accept either assignment
                ok_carry.append(bor(*[d == z for z in w], *[other == z for z in w]))
                used.setdefault(key, []).append((d, other))
            cl.append(('atoms_carried_descriptors', band(*ok_carry)))
            # a bond between two atoms *written* aromatic: its final order is decided by the aromaticity perception that
            # follows (1.5, or 1 / 2 where the system is kekulised), not by the descriptor alone
            arom = (nodes[a].get('aromatic') and nodes[b].get('aromatic')) or all(arom_in)
            if not arom:
                dig = lambda s: SymStr.lift(s).to_int() if not isinstance(s, str) else int(s)
                cl.append(('bond_order_annotated', bor(order == dig(x[-1]), (False if legacy else order == dig(y[-1])))))
        for a, b, o in meta['edges']:
            # the base graph comes back with the orders it was written with (the oracle keeps its own copy)
            cl.append(('base_edge_order_as_written', o == cnt.get(tuple(sorted((border[a], border[b]))))))
        for e, o in base.items():
            cl.append(('count_not_above_edge_order', per_edge.get(e, 0) <= o))
            # in these cases every unit of a base edge's order stands for one cut bond with its own compatible descriptor
            # pair, so "exactly that many" is reached (the maximality clause of the unit drive, in its simple form)
            if len(shape['case']['cut']) == 1:       # a single cut: nothing can be ambiguous under either convention
                cl.append(('count_reaches_edge_order', per_edge.get(e, 0) >= o))
        for key, lst in used.items():
            cl.append(('descriptor_used_once', len(lst) <= len(inp['written'].get(key, []))))
        return cl

    def sample(self, shape, cinp):
        return cinp.get('text') or [cinp['desc'], cinp['orders']]

    MUTANTS = {
        'labels_ignored_in_legacy': {'resolve': ("            return left[1:] == right[1:]\n        return False\n    else:",
                                                 "            return True\n        return False\n    else:")},
        'dollar_matches_bang': {'resolve': ("        if left[0] == right[0] == '$' or left[0] == right[0] == '!':",
                                            "        if left[0] in '$!' and right[0] in '$!':")},
        'one_bond_too_many': {'resolve': ('            for _ in range(0, self.meta_graph.edges[(prev_node, node)]["order"]):',
                                          '            for _ in range(0, self.meta_graph.edges[(prev_node, node)]["order"] + 1):')},
        'source_descriptor_kept': {'resolve': ("                prev_graph.nodes[edge[0]]['bonding'].remove(bonding[0])\n", "")},
        'order_from_target': {'resolve': ("                order = int(bonding[0][-1])", "                order = int(bonding[1][-1]) + (0 if self.legacy else 1)")},
    }


PROP = C03()

# shape families added after the first complete pass (DESIGN 8.6-8.11); appended to the bounds written into the evidence
BOUNDS_ADDED = '; plus: unit drive with bead fragments (all_atom=False), a single-hydrogen fragment mid-chain, label lengths up to 4, pipeline cases through from_fragment_dicts / from_graph with independent partner labels under legacy=False, base edges of order 2 handed over through from_graph (the oracle keeps its own copy of the written orders)'
PROP.BOUNDS = {k: v + BOUNDS_ADDED for k, v in PROP.BOUNDS.items()}
