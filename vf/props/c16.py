"""C16 -- sampled polymers are well-formed molecules built from the given fragments."""
import random
import time

import networkx as nx
import z3

from .. import core, gen_graph as gg, gen_mol as gm, pipeline as pl, symx
from ..symx import SymReal, band, bor, sym_int
from .c02 import strip_desc, template
from .c09 import valence_clauses

# configurations: fragment string, sampler keyword arguments (descriptors are concrete: they are dict keys in the sampler)
CONFIGS = {
    'peo_linear': dict(frags='{#PEO=[$]COC[$]}', kw=dict(polymer_reactivities={'$': 1.0}), aa=True),
    'ps_directed': dict(frags='{#PS=[>]CC[<]c1ccccc1}', kw=dict(polymer_reactivities={'>': 0.5, '<': 0.5}), aa=True),
    'copolymer_labels': dict(frags='{#A=[$A]CC[$B],#B=[$C]C(C)C[$D]O}',
                             kw=dict(polymer_reactivities={'$A': 0.5, '$B': 0.0, '$C': 0.5, '$D': 0.0},
                                     fragment_reactivities={'$A': {'$A': 0., '$C': 0., '$B': 0.7, '$D': 0.3},
                                                            '$B': {'$A': 0.7, '$C': 0.3, '$B': 0.0, '$D': 0.0},
                                                            '$C': {'$A': 0., '$C': 0., '$B': 0.3, '$D': 0.7},
                                                            '$D': {'$A': 0.3, '$C': 0.7, '$B': 0.0, '$D': 0.0}}), aa=True),
    'vinylimidazole': dict(frags='{#VIM=[>]CC[<]c1c[nH]cn1,#ST=[>]CC[<]c1ccccc1}', kw=dict(polymer_reactivities={'>': 0.5, '<': 0.5}), aa=True),
    'two_labels_on_one_atom': dict(frags='{#MET=[$A]C[$B],#EO=[$C]CO[$D]}',
                                   kw=dict(polymer_reactivities={'$A': 0.4, '$B': 0.1, '$C': 0.3, '$D': 0.2},
                                           fragment_reactivities={'$A': {'$A': 0.0, '$B': 0.0, '$C': 0.5, '$D': 0.5},
                                                                  '$B': {'$A': 0.0, '$B': 0.0, '$C': 0.5, '$D': 0.5},
                                                                  '$C': {'$A': 0.5, '$B': 0.5, '$C': 0.0, '$D': 0.0},
                                                                  '$D': {'$A': 0.5, '$B': 0.5, '$C': 0.0, '$D': 0.0}}), aa=True),
    'brush_terminal': dict(frags='{#PMA=[>]CC[<]C(=O)OC[>A],#PEG=[<A]COC[>A][$A],#OH=[$B]O}',
                           kw=dict(terminal_bonds=['$A', '$B'],
                                   polymer_reactivities={'<': 0.1, '>': 0.1, '>A': 0.8, '<A': 0.8, '$A': 0.3, '$B': 0.0},
                                   fragment_reactivities={'$A': {'$A': 0, '$B': 1.0}}), aa=True),
    'cg_dextran': dict(frags='{#GLC=[$A][#A]1[#B][$B][#C]1[$C]}',
                       kw=dict(fragment_masses={'GLC': 165}, polymer_reactivities={'$A': 0.8, '$C': 0.1, '$B': 0.1},
                               fragment_reactivities={'$A': {'$A': 0.0, '$C': 1.0, '$B': 0.0},
                                                      '$B': {'$A': 1.0, '$C': 0.0, '$B': 0.0},
                                                      '$C': {'$A': 1.0, '$C': 0.0, '$B': 0.0}}), aa=False, sym_mass=True),
    'cg_two_frags_orders': dict(frags='{#test=[<][#A][#B][$][#C][>],#frag2=[$]=[#P][#D][<]}',
                                kw=dict(fragment_masses={'test': 42, 'frag2': 84}, polymer_reactivities={'$': 0.4, '>': 0.3, '<': 0.3, '$2': 0.2}),
                                aa=False, sym_mass=True),
    # directed descriptors whose labels end in digits and differ only there; a long label; an unlabelled pair next to them
    'digit_labels': dict(frags='{#M=[>A1][#a][#c][<A1],#N=[>A2][#b][<A2],#K=[>][#k][<],#L=[>chainEnd9][#l][<chainEnd9]}',
                         kw=dict(fragment_masses={'M': 10, 'N': 20, 'K': 30, 'L': 40},
                                 polymer_reactivities={'>A11': 0.2, '<A11': 0.2, '>A21': 0.1, '<A21': 0.1, '>1': 0.1, '<1': 0.1, '>chainEnd91': 0.1, '<chainEnd91': 0.1}),   # (keys with the order written out: a label that ends in a digit would be read as the order)
                         aa=False, sym_mass=True),
    # same heavy atoms, different saturation (element-derived masses differ by the hydrogens only)
    'same_heavy_atoms': dict(frags='{#BU=[>]CC=CC[<],#BA=[>]CCCC[<],#BY=[>]CC#CC[<]}', kw=dict(polymer_reactivities={'>': 0.5, '<': 0.5}), aa=True),
    'missing_key': dict(frags='{#A=[$A]CC[$B],#B=[$A]O[$C]}', kw=dict(polymer_reactivities={'$A': 1.0}), aa=True),
    # a table row that also lists descriptors which are no valid partners (only complements may ever be chosen)
    'table_with_foreign_keys': dict(frags='{#A=[>]CC[<],#B=[>]C(C)C[<]O}',
                                    kw=dict(polymer_reactivities={'>': 0.5, '<': 0.5},
                                            fragment_reactivities={'>': {'<': 0.6, '>': 0.4}, '<': {'>': 0.5, '<': 0.5}}), aa=True),
    'dollar_orders_table': dict(frags='{#A=[$A]CC[$B]=C,#B=[$A]O[$B]=N}',
                                kw=dict(polymer_reactivities={'$A': 0.5, '$B2': 0.5},
                                        fragment_reactivities={'$A': {'$A': 0.5, '$B2': 0.5}, '$B2': {'$B2': 1.0, '$A': 0.2}}), aa=True),
    # the same terminal descriptor twice on one node
    'double_terminal': dict(frags='{#M=[<][#A][>][#B][>][$T][$T],#E=[$E][#X]}',
                            kw=dict(fragment_masses={'M': 10, 'E': 2}, terminal_bonds=['$T', '$E'],
                                    polymer_reactivities={'<': 0.3, '>': 0.4, '$T': 0.3, '$E': 0.0},
                                    fragment_reactivities={'$T': {'$E': 1.0, '$T': 0.0}, '$E': {'$T': 1.0}}), aa=False),
    # all-atom fragments together with user-supplied masses
    'aa_with_masses': dict(frags='{#PEO=[$]COC[$],#E=[$]C}', kw=dict(fragment_masses={'PEO': 44, 'E': 15}, polymer_reactivities={'$': 1.0}),
                           aa=True, sym_mass=True),
    # one node with the same descriptor three times
    'star_core': dict(frags='{#S=[#C][>][>][>],#A=[<][#X][>]}', kw=dict(fragment_masses={'S': 12, 'A': 5},
                                                                        polymer_reactivities={'>': 0.7, '<': 0.3}), aa=False),
    # atoms annotated with weights (the weight is not a mass)
    'weighted_atoms': dict(frags='{#PP=[<][C;w=0.5]C[C;w=0.5][>],#Q=[<]O[>]}', kw=dict(polymer_reactivities={'>': 0.5, '<': 0.5}), aa=True),
    'explicit_hydrogen': dict(frags='{#PVA=[>]CC[<]O[H;0.5],#PE=[>]CC[<]}', kw=dict(polymer_reactivities={'>': 0.5, '<': 0.5}), aa=True),
    'double_bond_link': dict(frags='{#E=[$]=CC=[$],#T=[$]=C}', kw=dict(polymer_reactivities={'$2': 1.0}), aa=True),
    'cg_terminal': dict(frags='{#test=[<][#A][#B][#C][>][$A],#ter=[$B][#D]}',
                        kw=dict(fragment_masses={'test': 10, 'ter': 3}, terminal_bonds=['$A', '$B'],
                                polymer_reactivities={'<': 0.3, '>': 0.3, '$A': 0.4, '$B': 0.0},
                                fragment_reactivities={'$A': {'$A': 0.0, '$B': 1.0}, '$B': {'$A': 1.0, '$B': 0.0}}), aa=False),
}
QUICK = ['peo_linear', 'copolymer_labels', 'brush_terminal', 'cg_dextran', 'cg_terminal', 'cg_two_frags_orders', 'missing_key', 'table_with_foreign_keys', 'double_terminal', 'aa_with_masses', 'star_core', 'weighted_atoms', 'two_labels_on_one_atom', 'vinylimidazole', 'digit_labels', 'same_heavy_atoms', 'explicit_hydrogen']


class NoChoice(Exception):
    """random.choices with a total weight of zero / random.choice on an empty sequence: the sampler cannot continue"""


class NoChoiceEmpty(NoChoice, IndexError):
    """what random.choice raises on an empty sequence (IndexError)"""


class NoChoiceZero(NoChoice, ValueError):
    """what random.choices raises when the weights add up to zero (ValueError)"""


# The sampler raising instead of returning is not a returned molecule: the statements of C16/C17 quantify over returned
# molecules.  Exception types with which growth legitimately ends -- no complementary descriptor left (IOError), nothing to
# choose from (IndexError, as random.choice), all weights zero (ValueError, as random.choices), whether random raises them
# or the sampler itself does before asking -- prune the path; any other type is still reported.  That no configuration
# is pruned away entirely is checked per configuration (vacuity_groups).
LEGIT_STOPS = ('OSError', 'NoChoice', 'NoChoiceEmpty', 'NoChoiceZero', 'IndexError', 'ValueError')


class Stream:
    """environment stub for the module-level RNG: seed(s) resets the stream; the k-th draw of a run seeded with s
    over n items is the solver-chosen value R(s, k, n) -- the same term for the same (s, k, n), which is what
    'same seed, same sequence' means; choices() never returns an item of weight 0.
    With ``recorded`` (dict key -> int) the same stream replays concrete values (used on the real code)."""

    def __init__(self, recorded=None):
        self.recorded = recorded
        self.reset_path()

    prefix = ()

    def reset_path(self):
        self.seed = 'unseeded'
        self.k = 0
        self.draws = {}
        self.n_unseeded = 0

    @staticmethod
    def key(seed, k, n):
        return "%s|%d|%d" % (seed, k, n)

    def do_seed(self, a=None, st=None):
        # st: the state of a generator object of its own (random.Random(seed)); None = the module-level generator
        if a is None or isinstance(a, tuple):
            self.n_unseeded += 1
            a = 'clock%d' % self.n_unseeded
        st = self.__dict__ if st is None else st
        st['seed'] = str(a) if not symx.is_sym(a) else 'symseed'
        st['k'] = 0

    pinned = ()      # seeds whose draws are not explored: always the first option with positive weight (earlier, unrelated samplers)

    def draw(self, n, weights=None, st=None):
        st = self.__dict__ if st is None else st
        if st['seed'] in self.pinned:
            st['k'] += 1
            if weights is None:
                return 0
            for i, w in enumerate(weights):
                if w > 0:
                    return i
            raise symx.PathAbort()
        key = self.key(st['seed'], st['k'], n)
        st['k'] += 1
        if self.recorded is not None:
            if key not in self.recorded:
                raise symx.Unsupported('replay: no recorded draw for %s (the symbolic run never got here)' % key)
            return int(self.recorded[key])
        if key not in self.draws:
            v = sym_int('rng%d' % (len(self.draws) + 1), 0, n - 1)
            pos = len(self.draws)
            if pos < len(self.prefix):
                # the shape fixes the class of the first draws (only to spread the exploration over workers)
                c = self.prefix[pos]
                symx.ENG.assume((v == c) if c < 3 else (v >= 3))
            self.draws[key] = v
        idx = int(self.draws[key])       # concretised by forking: one path per outcome
        if weights is not None:
            w = weights[idx]
            if not (w > 0):
                raise symx.PathAbort()   # zero-weight items are never drawn (documented behaviour of random.choices)
        return idx


STREAM = Stream()


def stub_random_class(stream):
    """random.Random with seed/choice/choices drawn from ``stream`` -- a generator object of its own is the same
    stream R(seed, k, n) with its own (seed, k); every other method of the generator is outside the model"""
    class StubRandom(_REAL_RANDOM):
        def __init__(self, x=None):
            _REAL_RANDOM.__init__(self, 0)
            self._st = {}
            stream.do_seed(x, self._st)

        def seed(self, a=None, version=2):
            if '_st' in self.__dict__:
                stream.do_seed(a, self._st)
            else:
                _REAL_RANDOM.seed(self, 0)

        def choice(self, seq):
            if len(seq) == 0:
                raise NoChoiceEmpty('Cannot choose from an empty sequence')
            return seq[stream.draw(len(seq), None, self._st)]

        def choices(self, population, weights=None, *, cum_weights=None, k=1):
            if cum_weights is not None or k != 1:
                raise symx.Unsupported('random.choices with cum_weights / k != 1')
            if len(population) == 0:
                raise NoChoiceEmpty('Cannot choose from an empty sequence')
            if weights is not None:
                weights = [float(x) if not symx.is_sym(x) else x for x in list(weights)]
                if not any((x > 0) for x in weights):
                    raise NoChoiceZero('Total of weights must be greater than zero')
            return [population[stream.draw(len(population), weights, self._st)]]

        def _outside(self, *a, **kw):
            raise symx.Unsupported('a method of random.Random other than seed / choice / choices')
        random = shuffle = sample = randint = randrange = uniform = getrandbits = randbytes = gauss = _outside
    return StubRandom


_REAL_RANDOM = random.Random


def install_rng(SH):
    stub = stub_random_class(STREAM)

    def pred(f, a, kw):
        return f in (random.seed, random.choice, random.choices, time.time_ns, _REAL_RANDOM)

    def handler(f, a, kw):
        if f is _REAL_RANDOM:
            return stub(*a, **kw)
        if f is random.seed:
            STREAM.do_seed(kw.get('a', a[0] if a else None))
            return None
        if f is time.time_ns:
            return ('clock', -1)
        seq = a[0]
        if len(seq) == 0:
            raise NoChoiceEmpty('Cannot choose from an empty sequence')
        if f is random.choice:
            return seq[STREAM.draw(len(seq))]
        w = kw.get('weights')
        if w is not None:
            w = [float(x) if not symx.is_sym(x) else x for x in list(w)]
            if not any((x > 0) for x in w):
                raise NoChoiceZero('Total of weights must be greater than zero')
        return [seq[STREAM.draw(len(seq), w)]]
    symx.RT.call_hooks = [(pred, handler)]
    symx.RT.set_order_hook = None


def spec_complementary(site, partner):
    """'$' with '$' (labels only steer probabilities) and '>' with '<' of identical label; equal order (last character)"""
    ks, kp = site[0], partner[0]
    if site[-1] != partner[-1]:
        return False
    if ks == '$' and kp == '$':
        return True
    if (ks, kp) in (('>', '<'), ('<', '>')):
        return site[1:] == partner[1:]
    return False


def with_order(d):
    return d if d[-1].isdigit() else d + '1'


class SamplerProp(core.Prop):
    STUBS = ['random.seed/choice/choices (module level or a random.Random object): stream R(seed, k, n) of solver-chosen indices (choices never returns a zero-weight item); other generator methods: unsupported; '
             'time.time_ns: arbitrary', 'pysmiles/networkx/numpy native (probabilities and descriptors are concrete)']
    MAX_PATHS = 40000
    ALLOW_VACUOUS = True     # a prefix class of the first draws may be infeasible for a configuration
    KMAX = {'quick': 3, 'thorough': 4}

    def setup_shadow(self, SH):
        install_rng(SH)
        self._cut = [0]

    @staticmethod
    def vacuity_groups(shape):
        return shape['cfg']

    def extra_counts(self):
        n = self._cut[0]
        self._cut[0] = 0
        return {'paths_cut_at_growth_bound': n}

    def shapes(self, tier):
        names = QUICK if tier == 'quick' else sorted(CONFIGS)
        out = [{'cfg': n, 'kmax': self.KMAX[tier], 'prefix': [a, b]} for n in names for a in range(4) for b in range(4)]
        # the same through the plain constructor, and with the start_fragment option (first draws unconstrained)
        for i, n in enumerate(names):
            if tier != 'quick' or i % 3 == 0:
                out.append({'cfg': n, 'kmax': self.KMAX[tier] - 1, 'prefix': [], 'via': 'ctor'})
            if tier != 'quick' or i % 3 == 1:
                out.append({'cfg': n, 'kmax': self.KMAX[tier] - 1, 'prefix': [], 'via': 'start'})
        # one deep path class: every draw takes its first option, growth up to 12 added fragments (the stop decision
        # stays symbolic through the target), so that results with more than ten fragments are seen
        out.append({'cfg': 'peo_linear', 'kmax': 12, 'prefix': [0] * 40, 'deep': True})
        out.append({'cfg': 'cg_two_frags_orders', 'kmax': 12, 'prefix': [0] * 40, 'deep': True})
        return out

    def build(self, shape):
        cfg = CONFIGS[shape['cfg']]
        STREAM.reset_path()
        STREAM.prefix = tuple(shape.get('prefix', ()))
        if cfg.get('sym_mass') or not cfg['aa']:
            inp = {'target': symx.sym_real('target'), 'draws': {}}
            symx.ENG.add(inp['target'].e >= 0)
        else:
            # element-derived masses are doubles: keep the target on a 1/8 grid so that the rounding of float sums
            # (outside every claim) cannot flip the stopping comparison between the exact and the real run
            t8 = symx.sym_int('target_eighths', 0, 8 * 4000)
            inp = {'target': SymReal.mk(z3.ToReal(t8.e) / 8), 'draws': {}}
        if cfg.get('sym_mass'):
            inp['masses'] = {}
            for k in cfg['kw']['fragment_masses']:
                m = symx.sym_real('mass_' + k)
                symx.ENG.add(m.e > 0)
                inp['masses'][k] = m
        return inp

    def _sampler(self, M, shape, inp, seed):
        cfg = CONFIGS[shape['cfg']]
        kw = dict(cfg['kw'])
        if inp.get('masses'):
            kw['fragment_masses'] = dict(inp['masses'])
        if shape.get('via') == 'ctor':
            # the plain constructor with fragment graphs read by the caller
            fd = M.read_fragments.read_fragments(cfg['frags'], all_atom=cfg['aa'])
            return M.sample.MoleculeSampler(fd, all_atom=cfg['aa'], seed=seed, **kw)
        s = M.sample.MoleculeSampler.from_fragment_string(cfg['frags'], all_atom=cfg['aa'], seed=seed, **kw)
        return s

    def _run_once(self, M, shape, inp, seed, record):
        s = self._sampler(M, shape, inp, seed)
        count = [0]
        orig = s.add_fragment
        kmax = shape['kmax']

        def add(*a, **k):
            count[0] += 1
            if count[0] > kmax:
                if getattr(M, 'is_shadow', False):
                    self._cut[0] += 1
                raise symx.PathAbort()
            return orig(*a, **k)
        s.add_fragment = add
        if shape.get('via') == 'start':
            # the documented start_fragment option: the first fragment named in the string
            mol = s.sample(inp['target'], start_fragment=CONFIGS[shape['cfg']]['frags'][2:].split('=', 1)[0])
        else:
            mol = s.sample(inp['target'])
        data = pl.graph_data(mol, keys=pl.NODE_KEYS + ('bonding',))
        return {'mol': data, 'masses': {k: v for k, v in s.fragment_masses.items()}, 'steps': count[0]}

    def execute(self, M, shape, inp):
        if getattr(M, 'is_shadow', False):
            r = core.guard(self._run_once, M, shape, inp, 7, True)
            inp['draws'] = dict(STREAM.draws)
            return r
        return self._real_run(M, shape, inp)

    def _real_run(self, M, shape, inp, seeds=(7,), between=None):
        rs = Stream(recorded={k: int(v) for k, v in inp['draws'].items()})
        o_choice, o_choices, o_seed = random.choice, random.choices, random.seed

        def choice(seq):
            if len(seq) == 0:
                raise NoChoiceEmpty('Cannot choose from an empty sequence')
            return seq[rs.draw(len(seq))]

        def choices(seq, weights=None, **kw):
            if len(seq) == 0:
                raise NoChoiceEmpty('Cannot choose from an empty sequence')
            if weights is not None and not any(float(x) > 0 for x in weights):
                raise NoChoiceZero('Total of weights must be greater than zero')
            return [seq[rs.draw(len(seq), [float(x) for x in weights] if weights is not None else None)]]
        random.choice, random.choices, random.seed = choice, choices, (lambda a=None: rs.do_seed(a))
        random.Random = stub_random_class(rs)        # generator objects of their own: the same recorded stream
        o_ns, time.time_ns = time.time_ns, (lambda: ('clock', -1))   # as in the symbolic run: a clock value seeds a stream of its own
        try:
            if len(seeds) == 1:
                return core.guard(self._run_once, M, shape, inp, seeds[0], False)
            out = []
            for i, sd in enumerate(seeds):
                if i and between is not None:
                    between()
                out.append(core.guard(self._run_once, M, shape, inp, sd, False))
            return out
        finally:
            random.choice, random.choices, random.seed = o_choice, o_choices, o_seed
            random.Random = _REAL_RANDOM
            time.time_ns = o_ns


class C16(SamplerProp):
    ID = 'C16'
    CROSSHAIR_KERNELS = ['reader_kernels.py']
    FUNCTIONS = ['__init__', 'add_fragment', 'sample', '_select_bonding_operator', '_set_bond_order_defaults',
                 'find_complementary_bonding_descriptor', 'find_open_bonds', 'merge_graphs', 'sort_nodes_by_attr',
                 'set_atom_names_atomistic', 'rebuild_h_atoms', 'from_fragment_string', 'compute_mass']
    ASSUMPTIONS = ['the whole RNG outcome sequence, the target weight (real >= 0) and, where masses are supplied, the fragment masses (real > 0) '
                   'are symbolic; descriptors, reactivity tables and terminal sets are concrete per configuration',
                   'growth is bounded by KMAX added fragments; paths needing more are cut and counted (unwinding report in the evidence)',
                   'a path on which the sampler raises (no complementary descriptor left, all weights zero) is not a returned molecule and is pruned']
    OUTSIDE = ['growth beyond the step bound', 'symbolic descriptor strings (dict keys throughout the sampler)', 'seed=None (clock) beyond "arbitrary"']
    BOUNDS = {'quick': 'configurations %s, <= 3 added fragments' % QUICK, 'thorough': 'configurations %s, <= 4 added fragments' % sorted(CONFIGS)}
    LEVEL_TEXT = ('Bounded: for every RNG outcome sequence and every target weight that stops within the step bound, z3 explores the real sampler '
                  'and decides that the returned molecule is a connected tree of fragment copies, one complementary equal-order bond per added '
                  'fragment, no descriptor used twice, copies isomorphic to their templates, canonical numbering, and (all-atom) complete valences.')
    TECHNIQUE = 'symbolic execution of the sampler with the RNG stream, target weight and masses symbolic; relational oracle; z3'

    def oracle(self, shape, inp, obs):
        if obs[0] != 'ok':
            if obs[1] in LEGIT_STOPS:
                raise symx.PathAbort()
            return [('no_unexpected_exception', False)]
        return [('no_unexpected_exception', True)] + wellformed_clauses(shape, obs[1])

    def sample(self, shape, cinp):
        return {'cfg': shape['cfg'], 'target': str(cinp['target']), 'draws': list(cinp['draws'].values()), 'masses': {k: str(v) for k, v in (cinp.get('masses') or {}).items()}}

    MUTANTS = {
        'partner_descriptor_kept': {'sample': ("        molecule.nodes[correspondence[target_node]]['bonding'].remove(compl_bonding)\n", "")},
        'dollar_any_order': {'cgsmiles_utils': ("            if descriptor[0] == '$' and descriptor[-1] == bonding_descriptor[-1]:", "            if descriptor[0] == '$':")},
        'fragid_offset_reset': {'graph_utils': (
            "        fragment_offset = max(source_graph.nodes[last_node_idx].get('fragid', [0])) + 1",
            "        fragment_offset = max(source_graph.nodes[last_node_idx].get('fragid', [0])) + (1 if len(source_graph) < 6 else 0)")},
        'template_shared': {'graph_utils': ("        new_atom = copy.deepcopy(target_graph.nodes[node])", "        new_atom = dict(target_graph.nodes[node])")},
    }


def wellformed_clauses(shape, o):
    cfg = CONFIGS[shape['cfg']]
    aa = cfg['aa']
    mol = o['mol']
    nodes = mol['nodes']
    cl = []
    g = nx.Graph()
    for n in nodes:
        g.add_node(n)
    for a, b, order, bd in mol['edges']:
        g.add_edge(a, b)
    cl.append(('connected', nx.is_connected(g)))
    frag_ids = sorted({tuple(d.get('fragid', [])) for d in nodes.values()})
    nfrag = len(frag_ids)
    inter = [(a, b, order, bd) for a, b, order, bd in mol['edges'] if bd is not None]
    cl.append(('one_bond_per_added_fragment', len(inter) == nfrag - 1 and o['steps'] == nfrag - 1))
    # tree of fragments, each bond between different copies
    fg = nx.Graph()
    fg.add_nodes_from(frag_ids)
    for a, b, order, bd in inter:
        fa, fb = tuple(nodes[a]['fragid']), tuple(nodes[b]['fragid'])
        cl.append(('bond_joins_two_copies', fa != fb))
        fg.add_edge(fa, fb)
        cl.append(('pair_complementary_equal_order', spec_complementary(bd[0], bd[1])))
        cl.append(('bond_order_is_descriptor_order', gg.val_eq(order, int(bd[0][-1]))))
    cl.append(('fragments_form_a_tree', nx.is_connected(fg) and fg.number_of_edges() == nfrag - 1))
    # copies isomorphic to their template; no descriptor used twice
    import re
    defs = {}
    for d in cfg['frags'][1:-1].split(',#'):
        d = d.lstrip('#')
        nm, body = d.split('=', 1)
        defs[nm] = body
    used = {}
    for a, b, order, bd in inter:
        # the site is the first descriptor; which endpoint is the site is not stored: accept either assignment
        used.setdefault(a, []).append(bd)
        used.setdefault(b, []).append(bd)
    order_of = {frozenset((a, b)): od for a, b, od, _ in mol['edges']}
    for fid in frag_ids:
        mem = [n for n, d in nodes.items() if tuple(d.get('fragid', [])) == fid]
        heavy = [n for n in mem if not (aa and nodes[n].get('element') == 'H')]
        names = {nodes[n].get('fragname') for n in mem}
        cl.append(('copy_has_one_name', len(names) == 1))
        nm = next(iter(names))
        if nm not in defs:
            cl.append(('known_fragment', False))
            continue
        tmpl = template(defs[nm])
        if aa:
            # compared on heavy atoms (a written hydrogen cannot be told from a completed one in sampler output)
            tmpl = tmpl.copy()
            tmpl.remove_nodes_from([n for n, d in list(tmpl.nodes(data=True)) if d.get('element') == 'H'])
        gcopy = nx.Graph()
        for n in heavy:
            gcopy.add_node(n, **nodes[n])
        for e, od in order_of.items():
            x, y = tuple(e)
            if x in gcopy and y in gcopy:
                gcopy.add_edge(x, y, order=od)

        def neq(x, y):
            if aa:
                return x.get('element') == y.get('element') and x.get('charge', 0) == y.get('charge', 0)
            return x.get('atomname') == y.get('name')
        cl.append(('copy_isomorphic_to_template', gg.iso_clause(gcopy, tmpl, neq, lambda x, y: True)))
        # descriptors: per atom, (descriptors used on bonds) + (descriptors still open) <= written on the template atom
        written = sorted(with_order(x) for x in re.findall(r'\[([$<>!][^\]]*)\]', defs[nm]))
        open_left = [x for n in mem for x in (nodes[n].get('bonding') or [])]
        nused = sum(len(used.get(n, [])) for n in mem)
        cl.append(('no_descriptor_used_twice', nused + len(open_left) <= len(written)))
    # exact descriptor bookkeeping per atom of every copy (template atom = rank among the copy's non-completed atoms)
    terms = [with_order(t) for t in cfg['kw'].get('terminal_bonds', [])]
    for fid in frag_ids:
        mem = sorted(n for n, d in nodes.items() if tuple(d.get('fragid', [])) == fid)
        heavy = [n for n in mem if not (aa and nodes[n].get('element') == 'H')]
        nm = nodes[mem[0]].get('fragname')
        if nm not in defs:
            continue
        written = {k: sorted(with_order(x) for x in v) for k, v in gm.parse_descriptors(defs[nm]).items()}
        for rank, n in enumerate(heavy):
            w = list(written.get(rank, []))
            used_here, was_site, got_terminal = [], False, False
            for a, b, order, bd in inter:
                if n not in (a, b):
                    continue
                other = b if a == n else a
                if nodes[n]['fragid'] < nodes[other]['fragid']:
                    used_here.append(bd[0])
                    was_site = True
                    if bd[1] in terms:
                        got_terminal = True
                else:
                    used_here.append(bd[1])
            left = sorted(nodes[n].get('bonding') or [])
            rest = list(w)
            ok = True
            for u in used_here:
                if u in rest:
                    rest.remove(u)
                else:
                    ok = False
            if got_terminal:
                want = []
            elif was_site:
                want = sorted(x for x in rest if x not in terms)
            else:
                want = sorted(rest)
            cl.append(('descriptor_bookkeeping_exact', ok and left == want))
    # canonical numbering
    keys = mol['order']
    cl.append(('node_keys_0_to_n', sorted(keys) == list(range(len(keys)))))
    fr = [nodes[k].get('fragid') for k in sorted(nodes)]
    cl.append(('sorted_by_membership', all(fr[i] <= fr[i + 1] for i in range(len(fr) - 1))))
    cl.append(('fragment_ids_consecutive', [f[0] for f in frag_ids] == list(range(nfrag))))
    if aa:
        ok = True
        for fid in frag_ids:
            mem = sorted(n for n, d in nodes.items() if tuple(d.get('fragid', [])) == fid)
            for idx, n in enumerate(mem):
                if nodes[n].get('atomname') != '%s%d' % (nodes[n].get('element'), idx):
                    ok = False
        cl.append(('atomnames_element_plus_running_index', ok))
        from .c09 import written_hydrogen_weights
        cl += valence_clauses(mol, written_hydrogen_weights(CONFIGS[shape['cfg']]['frags']))
    return cl


PROP = C16()

# shape families added after the first complete pass (DESIGN 8.6-8.11); appended to the bounds written into the evidence
BOUNDS_ADDED = '; plus: plain constructor and start_fragment variants, one deep path class (<= 12 added fragments, all draws first option); the generator may be the module-level one or a random.Random object owned by the sampler (same stream model)'
PROP.BOUNDS = {k: v + BOUNDS_ADDED for k, v in PROP.BOUNDS.items()}
