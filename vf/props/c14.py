"""C14 -- annotations mean the same however written and reach the graphs unchanged."""
import itertools

from .. import core, gen_graph as gg, symx
from ..symx import SymStr, band, cat, sym_alnum, sym_char

# dialects (docs: basic_graph_description.rst, "Reserved Annotation Symbols")
BASE = {'order': ['q', 'w'], 'full': {'q': 'charge', 'w': 'weight'}, 'default': {'charge': 0.0, 'weight': 1.0},
        'numeric': {'q', 'w'}}
FRAG = {'order': ['w', 'x'], 'full': {'w': 'weight', 'x': 'chiral'}, 'default': {'weight': 1.0},
        'numeric': {'w'}}
NUMFORMS_Q = ['sd', 'd.d', 'sd.d', 'ded']
NUMFORMS_T = ['d', 'sd', 'd.d', 'sd.d', '.d', 'd.', 'dd', 'ded', 'de-d', 'd.dE+d', 'sdesd', 'sdd.dd']
FREE_KEYS_Q = ['mass', 'Mw', 'charge']      # user-defined symbols are case sensitive; 'charge' reaches the recorded finding at the quick tier too
FREE_KEYS_T = ['mass', 'p', 'kwargs', 'r', 'Q', 'charge', 'weight', 'chiral']
COLLIDING = {'charge', 'weight', 'chiral'}


def spellings(dialect, given, free):
    """all documented ways of writing the same annotation: reserved keys given
    positionally as far as the leading keys are present, the rest by keyword in
    every order; free keys by keyword at every position among the keywords"""
    order = dialect['order']
    out = []
    maxpos = 0
    while maxpos < len(order) and order[maxpos] in given:
        maxpos += 1
    for npos in range(0, maxpos + 1):
        kws = [k for k in order[npos:] if k in given] + list(free)
        for perm in itertools.permutations(kws):
            out.append([[None, k] for k in order[:npos]] + [[k, k] for k in perm])
        # a free key=value entry does not take a positional slot: it may also stand between / before the positional values
        if npos and free:
            posl = [[None, k] for k in order[:npos]]
            rest = [[k, k] for k in order[npos:] if k in given]
            for cut in range(0, npos):
                out.append(posl[:cut] + [[k, k] for k in free] + posl[cut:] + rest)
    return out


WIDE = ' _-+.*/@'      # characters a free value may contain besides letters and digits (no ; = ] , } of the syntax)


class C14(core.Prop):
    ID = 'C14'
    FUNCTIONS = ['_parse_dialect_string', 'check_and_cast_types', 'create_dialect', 'read_cgsmiles',
                 'strip_bonding_descriptors', 'read_fragment_cgsmiles', 'read_fragment_smiles', 'merge_graphs',
                 'resolve_disconnected_molecule', 'rebuild_h_atoms']
    STUBS = ['inspect.Signature.bind: native (keys are concrete strings)', 're.finditer/findall on symbolic strings: symx matcher']
    ASSUMPTIONS = ['annotation keys are concrete; values are symbolic: numbers in the listed spellings (sign, digits, dot, '
                   'single-digit exponent) read as exact rationals, chirality letter R/S, free values 2 alnum characters',
                   'positional values precede the keyword entries of reserved keys; free key=value entries may stand anywhere']
    OUTSIDE = ['symbolic keys; numeric spellings outside the listed forms (inf, nan, underscores, multi-digit exponents)',
               'positional values written after keyword entries of *reserved* keys']
    BOUNDS = {
        'quick': 'base-node, coarse-fragment-atom and atomistic-fragment-atom dialects: every subset of reserved keys x 0-1 free key x '
                 'every spelling (positional prefix x keyword order) with numeric spellings %s; resolver carry-through on 3 strings' % NUMFORMS_Q,
        'thorough': 'every subset of reserved keys x 0-2 free keys from %s x every spelling x numeric spellings %s; '
                    'resolver carry-through with reuse counts 1-3' % (FREE_KEYS_T, NUMFORMS_T),
    }
    LEVEL_TEXT = ('Bounded: for every key subset/order/positional prefix z3 decides on every path of the real dialect parser and of the '
                  'readers/resolver that the attributes equal the constructed expectation and are identical across all spellings, for all '
                  'numeric values of the listed spellings and all free values at once.')
    TECHNIQUE = 'symbolic execution of the dialect parser, readers and resolver with symbolic annotation values; by-construction + metamorphic oracle; z3'
    MAX_PATHS = 4000

    def shapes(self, tier):
        out = []
        nf = NUMFORMS_Q if tier == 'quick' else NUMFORMS_T
        fk = FREE_KEYS_Q if tier == 'quick' else FREE_KEYS_T
        nfree = 1 if tier == 'quick' else 2
        for level, dialect in (('node', BASE), ('atom', FRAG), ('cgatom', FRAG)):
            order = dialect['order']
            for r in range(0, len(order) + 1):
                for given in itertools.combinations(order, r):
                    for f in range(0, nfree + 1):
                        for free in itertools.combinations(fk, f):
                            nnum = len(set(given) & dialect['numeric'])
                            forms = nf if nnum else nf[:1]
                            if tier == 'quick' and (f or r == 2):
                                forms = forms[:2]
                            if tier == 'thorough':
                                if nnum == 2:       # two numbers: exponent spellings fork x100, keep the plain ones
                                    forms = [x for x in forms if 'e' not in x.lower()] + ['ded']
                                if f == 2 or (set(free) & COLLIDING):
                                    forms = forms[:2]
                            for form in forms:
                                out.append({'mode': level, 'given': list(given), 'free': list(free), 'numform': form})
        # free values that are not plain words
        for level in ('node', 'atom', 'cgatom'):
            for free in ([fk[0]], [fk[1]]) if tier == 'quick' else [[k] for k in fk]:
                out.append({'mode': level, 'given': [], 'free': list(free), 'numform': nf[0], 'wide': True})
                out.append({'mode': level, 'given': ['w'], 'free': list(free), 'numform': nf[0], 'wide': True})
        # carry-through the resolver
        reuse = (2,) if tier == 'quick' else (1, 2, 3)
        for n in reuse:
            for form in (nf[:2] if tier == 'quick' else nf[:6]):
                out.append({'mode': 'resolve', 'reuse': n, 'numform': form, 'last': 'aa'})
                out.append({'mode': 'resolve', 'reuse': n, 'numform': form, 'last': 'cg'})
                # the same through the other constructor: fragments read separately and handed over as graphs
                out.append({'mode': 'resolve', 'reuse': n, 'numform': form, 'last': 'aa', 'variant': 'single_atom_fragment'})
                out.append({'mode': 'resolve', 'reuse': n, 'numform': form, 'last': 'cg', 'variant': 'single_atom_fragment'})
                out.append({'mode': 'resolve', 'reuse': n, 'numform': form, 'last': 'aa', 'entry': 'dicts'})
                out.append({'mode': 'resolve', 'reuse': n, 'numform': form, 'last': 'cg', 'entry': 'dicts'})
        return out

    # ------------------------------------------------------------------
    def _values(self, shape, tag=''):
        vals = {}
        for k in shape['given']:
            if k == 'x':
                vals[k] = SymStr([sym_char(tag + 'v_x', allowed='RS')])
            else:
                vals[k] = SymStr.mk(gg.build_number(tag + 'v_' + k, shape['numform']))
        for k in shape['free']:
            if shape.get('wide'):
                # a value with a character in the middle that is not alphanumeric (blank, underscore, ...): kept verbatim all the same
                vals[k] = SymStr.mk([sym_alnum("%sf_%s_0" % (tag, k)), sym_char("%sf_%s_1" % (tag, k), allowed=WIDE), sym_alnum("%sf_%s_2" % (tag, k))])
            else:
                vals[k] = SymStr.mk([sym_alnum("%sf_%s_%d" % (tag, k, j)) for j in range(2)])
        return vals

    @staticmethod
    def _entry_text(sp, vals):
        parts = []
        for key, vk in sp:
            parts.append(';')
            if key is not None:
                parts.append(key + '=')
            parts.append(vals[vk])
        return cat(*parts) if parts else ''

    def build(self, shape):
        if shape['mode'] == 'resolve':
            return self._build_resolve(shape)
        dialect = BASE if shape['mode'] == 'node' else FRAG
        vals = self._values(shape)
        sps = spellings(dialect, shape['given'], shape['free'])
        texts = [self._entry_text(sp, vals) for sp in sps]
        return {'vals': vals, 'texts': texts}

    def _build_resolve(self, shape):
        nf = shape['numform']
        v = {
            'aq': SymStr.mk(gg.build_number('aq', nf)), 'bw': SymStr.mk(gg.build_number('bw', nf)),
            'bm': SymStr.mk([sym_alnum('bm%d' % j) for j in range(2)]),
            'c1w': SymStr.mk(gg.build_number('c1w', nf)), 'o1x': SymStr([sym_char('o1x', allowed='RS')]),
            'h1w': SymStr.mk(gg.build_number('h1w', nf)), 'fz': SymStr.mk([sym_alnum('fz%d' % j) for j in range(2)]),
        }
        n = shape['reuse']
        base = cat('{[#A;q=', v['aq'], ']', '[#B;', '0', ';', v['bw'], ';m=', v['bm'], ']', ('|%d' % n) if n > 1 else '', '}')
        single = shape.get('variant') == 'single_atom_fragment'     # the annotated atom is the whole fragment B
        if shape['last'] == 'aa':
            frags = cat('{#A=[C;w=', v['c1w'], '](', '[H;', v['h1w'], '])C[$],#B=[$][C;x=', v['o1x'], ';z=', v['fz'], ']', '' if single else 'O', '[$]}')
        else:
            frags = cat('{#A=[#P;w=', v['c1w'], '][#Q;', v['h1w'], '][$],#B=[$][#R;x=', v['o1x'], ';z=', v['fz'], ']', '' if single else '[#S]', '[$]}')
        return {'text': cat(base, '.', frags), 'vals': v}

    # ------------------------------------------------------------------
    def execute(self, M, shape, inp):
        mode = shape['mode']
        if mode == 'node':
            return [core.guard(M.dialects.parse_graph_base_node, cat('Nm', t)) for t in inp['texts']] + \
                   [core.guard(lambda t=t: dict(M.read_cgsmiles.read_cgsmiles(cat('{[#Nm', t, '][#Z]}')).nodes[0])) for t in inp['texts'][:2]]
        if mode == 'atom':
            res = []
            for t in inp['texts']:
                def run(t=t):
                    # an annotated bracket atom followed by a plain bracket atom
                    smile, bonding, ez, attrs = M.read_fragments.strip_bonding_descriptors(cat('C[C', t, '][CH2]O[$]'))
                    return [smile, dict(attrs[1]), dict(attrs[2])]
                res.append(core.guard(run))
            return res
        if mode == 'cgatom':
            res = []
            for t in inp['texts']:
                def run(t=t):
                    d = M.read_fragments.read_fragments(cat('{#F=[#U][#V', t, '][#W][$]}'), all_atom=False)
                    return [dict(d['F'].nodes[1]), dict(d['F'].nodes[2])]
                res.append(core.guard(run))
            return res

        def run():
            last = shape['last'] == 'aa'
            R = M.resolve.MoleculeResolver
            if shape.get('entry') == 'dicts':
                from .. import pipeline as pl
                base, frag = pl.split_layers(inp['text'])
                dicts = R.read_fragment_strings([frag], last_all_atom=last)
                meta, mol = R.from_fragment_dicts(base, dicts, last_all_atom=last).resolve()
            else:
                meta, mol = R.from_string(inp['text'], last_all_atom=last).resolve()
            coarse = {k: {a: b for a, b in d.items() if a != 'graph'} for k, d in meta.nodes(data=True)}
            fine = {k: {a: d.get(a) for a in ('fragname', 'mapping', 'weight', 'chiral', 'z', 'element', 'atomname', 'w', 'fragid') if a in d}
                    for k, d in mol.nodes(data=True)}
            return [coarse, fine]
        return core.guard(run)

    # ------------------------------------------------------------------
    def _expected(self, dialect, shape, vals, name=None):
        exp = dict(dialect['default'])
        if name is not None:
            exp['fragname'] = name
        for k in shape['given']:
            full = dialect['full'][k]
            exp[full] = gg.number_value(vals[k], shape['numform']) if k in dialect['numeric'] else vals[k]
        for k in shape['free']:
            exp[k] = vals[k]
        return exp

    @staticmethod
    def _dict_eq(got, exp):
        if sorted(got.keys()) != sorted(exp.keys()):
            return False
        return band(*[gg.val_eq(got[k], v) for k, v in exp.items()])

    def oracle(self, shape, inp, obs):
        mode = shape['mode']
        cl = []
        if mode in ('node', 'atom', 'cgatom'):
            dialect = BASE if mode == 'node' else FRAG
            exp = self._expected(dialect, shape, inp['vals'], name='Nm' if mode == 'node' else None)
            for i, o in enumerate(obs):
                cl.append(('accepted', o[0] == 'ok'))
                if o[0] != 'ok':
                    continue
                got = o[1]
                if mode == 'atom':
                    cl.append(('clean_text', got[0] == 'C[C][CH2]O'))
                    # the plain bracket atom that follows carries the defaults only
                    cl.append(('following_plain_atom_has_defaults', self._dict_eq(got[2], {'weight': 1.0})))
                    got = got[1]
                if mode == 'cgatom':
                    plain = {'fragname': 'F', 'atomname': 'W', 'fragid': 0, 'w': 1, 'bonding': ['$1'], 'charge': 0.0, 'weight': 1.0}
                    cl.append(('following_plain_node_has_defaults', self._dict_eq(got[1], plain)))
                    got = got[0]
                    e2 = dict(exp)
                    e2.update({'fragname': 'F', 'atomname': 'V', 'fragid': 0, 'w': 1, 'charge': 0.0})
                    # the coarse fragment atom is itself a base-graph style node: documented defaults charge 0 / weight 1
                    cl.append(('keys', sorted(got.keys()) == sorted(e2.keys())))
                    if sorted(got.keys()) == sorted(e2.keys()):
                        cl.append(('values', band(*[gg.val_eq(got[k], v) for k, v in e2.items()])))
                    continue
                cl.append(('keys', sorted(got.keys()) == sorted(exp.keys())))
                if sorted(got.keys()) == sorted(exp.keys()):
                    cl.append(('values', band(*[gg.val_eq(got[k], v) for k, v in exp.items()])))
                    # reserved numeric keys are numbers
                    for k in dialect['numeric']:
                        full = dialect['full'][k]
                        cl.append(('numeric_type', isinstance(got[full], (float, int, symx.SymReal, symx.SymInt))
                                   and not isinstance(got[full], bool)))
            return cl
        # resolve carry-through
        if obs[0] != 'ok':
            return [('accepted', False)]
        coarse, fine = obs[1]
        v = inp['vals']
        nf = shape['numform']
        n = shape['reuse']
        cl.append(('accepted', True))
        cl.append(('coarse_nodes', sorted(coarse.keys()) == list(range(n + 1))))
        if sorted(coarse.keys()) != list(range(n + 1)):
            return cl
        cl.append(('base_A', band(coarse[0].get('fragname') == 'A', gg.val_eq(coarse[0].get('charge'), gg.number_value(v['aq'], nf)),
                                  gg.val_eq(coarse[0].get('weight'), 1.0))))
        for k in range(1, n + 1):
            cl.append(('base_B', band(coarse[k].get('fragname') == 'B', gg.val_eq(coarse[k].get('charge'), 0.0),
                                      gg.val_eq(coarse[k].get('weight'), gg.number_value(v['bw'], nf)),
                                      coarse[k].get('m') == v['bm'])))
        # fragment atom annotations on every copy (template atom identified through 'mapping')
        def copies(fragname, tmpl):
            return [d for d in fine.values() if d.get('mapping') and d['mapping'][0][0] == fragname and d['mapping'][0][1] == tmpl]
        a0 = copies('A', 0)
        a1 = copies('A', 1)
        b0 = copies('B', 0)
        cl.append(('copy_counts', len(a0) == 1 and len(a1) == 1 and len(b0) == n))
        wkey = 'weight'
        for d in a0:
            cl.append(('A_atom0_weight', gg.val_eq(d.get(wkey), gg.number_value(v['c1w'], nf))))
        for d in a1:
            cl.append(('A_atom1_weight', gg.val_eq(d.get(wkey), gg.number_value(v['h1w'], nf))))
        for d in b0:
            cl.append(('B_atom0_annotations', band(d.get('chiral') == v['o1x'], d.get('z') == v['fz'], gg.val_eq(d.get(wkey), 1.0))))
        others = [d for d in fine.values() if d.get('mapping') and d['mapping'][0] in (('A', 2), ('B', 1))]
        for d in others:
            cl.append(('unannotated_default_weight', gg.val_eq(d.get(wkey, 1), 1.0)))
        return cl

    def classify(self, shape, cinp, cobs, clauses):
        if shape['mode'] in ('node', 'atom', 'cgatom') and set(shape['free']) & COLLIDING:
            # known finding: a free key spelled like the verbose name of a reserved key is overwritten.
            # Signature: the same shape with the colliding free key(s) renamed passes.
            ren = {k: ('u' + k) for k in shape['free'] if k in COLLIDING}
            alt = dict(shape, free=[ren.get(k, k) for k in shape['free']])
            dialect = BASE if shape['mode'] == 'node' else FRAG
            vals = {ren.get(k, k): v for k, v in cinp['vals'].items()}
            texts = [self._entry_text(sp, vals) for sp in spellings(dialect, alt['given'], alt['free'])]
            from .. import loader
            bad, _ = core.replay_record(self, loader.load_orig(self.MODULES), alt, {'vals': vals, 'texts': texts})
            return None if bad else 'C14-free-key-named-like-reserved'
        return None

    def sample(self, shape, cinp):
        return cinp.get('texts', cinp.get('text'))

    MUTANTS = {
        'default_weight_zero': {'dialects': ('"w": (1.0, float)})\nparse_graph_base_node', '"w": (0.0, float)})\nparse_graph_base_node')},
        'kwargs_dropped': {'dialects': ("        out_args.update(applied_labels.arguments['kwargs'])\n", "        pass\n")},
        'positional_reversed': {'dialects': ("        applied_labels = dialect_signature.bind(*args_found,", "        applied_labels = dialect_signature.bind(*args_found[:1], *args_found[1:][::-1],")},
    }


PROP = C14()

# shape families added after the first complete pass (DESIGN 8.6-8.11); appended to the bounds written into the evidence
BOUNDS_ADDED = '; plus: upper-case free key, from_fragment_dicts entry, fragment that is a single annotated atom, free values with a non-alphanumeric character (blank _ - + . * / @) in the middle, free values with a non-alphanumeric character (blank _ - + . * / @) in the middle'
PROP.BOUNDS = {k: v + BOUNDS_ADDED for k, v in PROP.BOUNDS.items()}
