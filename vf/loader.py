"""
Load the repository's modules twice:

* ``ORIG``   -- the untouched ``cgsmiles`` package imported from /repo
* ``SHADOW`` -- the same source files, re-read from the working tree on every
                run, passed through the AST rewrite of ``symx`` and loaded as
                package ``sxcg``

Both are exposed as simple namespaces with one attribute per module so that the
same driver code can be pointed at either.
"""
import os
import sys
import types

REPO = os.environ.get('VERIF_REPO', '/repo')
os.environ.setdefault('PBR_VERSION', '0.0.0')
if REPO not in sys.path:
    sys.path.insert(0, REPO)

import warnings  # noqa: E402
warnings.filterwarnings('ignore')
import logging  # noqa: E402
logging.disable(logging.WARNING)      # the repository warns on some inputs; keep the checks' output clean
logging.getLogger('cgsmiles').setLevel(logging.ERROR)
logging.getLogger('sxcg').setLevel(logging.ERROR)
logging.getLogger('pysmiles').setLevel(logging.ERROR)

from . import symx  # noqa: E402

CORE = ['dialects', 'read_cgsmiles', 'pysmiles_utils', 'cgsmiles_utils',
        'read_fragments', 'graph_utils', 'resolve', 'write_cgsmiles', 'sample']
LAYOUT = ['linalg_functions', 'graph_layout_utils', 'graph_layout']
RDKIT = ['rdkit', 'coordinates']

PKG = 'sxcg'


class NS(types.SimpleNamespace):
    pass


def source_path(name):
    return os.path.join(REPO, 'cgsmiles', name + '.py')


def read_source(name):
    with open(source_path(name)) as fh:
        return fh.read()


_SHADOW_PKGS = {}      # package name -> (namespace, package module) of the shadow packages loaded in this process


class _ShadowFinder:
    """modules of /repo/cgsmiles that are not in a property's list (a helper moved into a new file, say) are loaded on
    demand, rewritten like the others, when a rewritten module imports them"""

    @staticmethod
    def find_spec(fullname, path=None, target=None):
        import importlib.util
        pkg, _, name = fullname.partition('.')
        if pkg not in _SHADOW_PKGS or not name or '.' in name or not os.path.exists(source_path(name)):
            return None

        class _Loader:
            @staticmethod
            def create_module(spec):
                ns, pkgmod = _SHADOW_PKGS[pkg]
                src = read_source(name)
                ns.sources[name] = src
                m = symx.load_rewritten(fullname, source_path(name), pkg=pkg, src=src)
                setattr(pkgmod, name, m)
                setattr(ns, name, m)
                return m

            @staticmethod
            def exec_module(module):
                return None
        return importlib.util.spec_from_loader(fullname, _Loader)


sys.meta_path.append(_ShadowFinder)


def load_shadow(modules=CORE, mutate=None, pkgname=PKG, extra_globals=None):
    """(Re)load the rewritten package.  ``mutate`` maps module name -> function
    (source text -> source text), used only by the sensitivity self-test."""
    pkg = types.ModuleType(pkgname)
    pkg.__path__ = []
    sys.modules[pkgname] = pkg
    ns = NS()
    ns.is_shadow = True
    ns.sources = {}
    _SHADOW_PKGS[pkgname] = (ns, pkg)
    for name in modules:
        if hasattr(ns, name) and not (mutate and name in mutate):
            continue                      # already loaded on demand by a module that imports it
        src = read_source(name)
        if mutate and name in mutate:
            new = mutate[name](src)
            if new == src:
                raise RuntimeError("mutation for %s did not change the source" % name)
            src = new
        ns.sources[name] = src
        eg = (extra_globals or {}).get(name)
        m = symx.load_rewritten("%s.%s" % (pkgname, name), source_path(name), pkg=pkgname,
                                src=src, extra_globals=eg)
        setattr(pkg, name, m)
        setattr(ns, name, m)
    return ns


_ORIG = None


def load_orig(modules=CORE):
    global _ORIG
    import importlib
    ns = NS()
    ns.is_shadow = False
    for name in modules:
        setattr(ns, name, importlib.import_module('cgsmiles.' + name))
    return ns


def snapshot_state(ns, modules):
    """remember the module-level mutable containers (dict / list / set) of the given modules as loaded"""
    import copy
    snap = {}
    for name in modules:
        mod = getattr(ns, name, None)
        if mod is None:
            continue
        for k, v in list(vars(mod).items()):
            if k.startswith('__') or isinstance(v, type) or callable(v):
                continue
            if type(v) in (dict, list, set) or type(v).__name__ in ('defaultdict', 'OrderedDict'):
                try:
                    snap[(name, k)] = copy.deepcopy(v)
                except Exception:
                    pass
    ns._state_snapshot = snap
    # further per-process state: mutable default arguments, functools caches, other empty-at-load containers (WeakKeyDictionary ...)
    defaults, caches, clearable = [], [], []
    for name in modules:
        mod = getattr(ns, name, None)
        if mod is None:
            continue
        for k, v in list(vars(mod).items()):
            if k.startswith('__'):
                continue
            funcs = [v]
            if isinstance(v, type) and getattr(v, '__module__', None) == getattr(mod, '__name__', None):
                funcs = [getattr(f, '__func__', f) for f in vars(v).values()]
            for f in funcs:
                f = getattr(f, '__wrapped__', f) if not hasattr(f, '__defaults__') else f
                if hasattr(f, 'cache_clear'):
                    caches.append(f)
                d = getattr(f, '__defaults__', None)
                if d and any(type(x) in (dict, list, set) for x in d):
                    try:
                        defaults.append((f, copy.deepcopy(d)))
                    except Exception:
                        pass
            if hasattr(v, 'cache_clear'):
                caches.append(v)
            if (not callable(v) and type(v) not in (dict, list, set) and hasattr(v, 'clear') and hasattr(v, '__len__')
                    and type(v).__module__ not in ('builtins',)):
                try:
                    if len(v) == 0:
                        clearable.append(v)
                except Exception:
                    pass
    ns._state_defaults, ns._state_caches, ns._state_clearable = defaults, caches, clearable
    return snap


def _same(a, b):
    """a == b for containers whose items may not compare to a plain truth value (numpy arrays): then 'not the same'"""
    try:
        return bool(a == b)
    except Exception:
        return False


def reset_state(ns):
    """restore those containers in place: state must not leak from one explored path (= one process) into the next"""
    import copy
    for (name, k), v in getattr(ns, '_state_snapshot', {}).items():
        mod = getattr(ns, name)
        cur = vars(mod).get(k)
        if cur is None or type(cur) is not type(v):
            vars(mod)[k] = copy.deepcopy(v)
            continue
        if _same(cur, v):
            continue
        if isinstance(cur, (dict, set)):
            cur.clear()
            cur.update(copy.deepcopy(v))
        elif isinstance(cur, list):
            cur[:] = copy.deepcopy(v)
    for f, d in getattr(ns, '_state_defaults', []):
        cur = f.__defaults__
        for c, v in zip(cur, d):
            if type(v) in (dict, set) and not _same(c, v):
                c.clear()
                c.update(copy.deepcopy(v))
            elif type(v) is list and not _same(c, v):
                c[:] = copy.deepcopy(v)
    for f in getattr(ns, '_state_caches', []):
        try:
            f.cache_clear()
        except Exception:
            pass
    for v in getattr(ns, '_state_clearable', []):
        try:
            v.clear()
        except Exception:
            pass
    # containers that did not exist at load time but are module-level now (created lazily) are dropped
    for name in {n for (n, _k) in getattr(ns, '_state_snapshot', {})} | set(getattr(ns, '_modules', [])):
        pass
