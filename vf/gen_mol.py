"""
G-mol: spec-side molecules, SMILES tokenising/rendering and fragmentation.
Nothing in this module calls the code under test (nor pysmiles): the molecule a
SMILES skeleton denotes is built here, so oracles are by construction.

SMILES subset: organic atoms C N O S P F Cl Br I B, aromatic c n o s, bracket
atoms [X], [XHn], [X+], [X-], [XHn+], coarse nodes [#name], bonds - = # : and
implicit, branches, ring digits 1-9 and %nn, '.' between components.
"""
import itertools
import re

ORGANIC = ['Cl', 'Br', 'C', 'N', 'O', 'S', 'P', 'F', 'I', 'B']
AROMATIC = ['c', 'n', 'o', 's']
BOND_ORDER = {'-': 1, '=': 2, '#': 3, ':': 1.5, '.': 0, '$': 4}

# Valence table V (DESIGN.md section 3.1): OpenSMILES organic subset for neutral
# atoms; charged atoms take the table of the isoelectronic neutral element.
VALENCE = {
    ('B', 0): [3], ('C', 0): [4], ('N', 0): [3, 5], ('O', 0): [2], ('P', 0): [3, 5],
    ('S', 0): [2, 4, 6], ('F', 0): [1], ('Cl', 0): [1], ('Br', 0): [1], ('I', 0): [1],
    ('N', 1): [4], ('O', 1): [3], ('O', -1): [1], ('N', -1): [2], ('C', -1): [3], ('C', 1): [3],
    ('S', -1): [1], ('S', 1): [3, 5], ('P', 1): [4], ('Na', 1): [0], ('H', 0): [1],
    # heavier main-group elements of the same groups (written as bracket atoms)
    ('Si', 0): [4], ('Ge', 0): [4], ('Se', 0): [2, 4, 6], ('As', 0): [3, 5],
}
MASS = {'H': 1.008, 'C': 12.011, 'N': 14.007, 'O': 15.999, 'S': 32.06, 'P': 30.973762,
        'F': 18.998403163, 'Cl': 35.45, 'Br': 79.904, 'Na': 22.98976928}


class Tok:
    __slots__ = ('kind', 'text', 'atom', 'extra')

    def __init__(self, kind, text, atom=None, extra=None):
        self.kind, self.text, self.atom, self.extra = kind, text, atom, extra

    def __repr__(self):
        return "%s(%r,%r)" % (self.kind, self.text, self.atom)


def tokenize(smiles):
    """-> list of Tok; kinds: atom, bond, open, close, ring, dot.
    ``atom`` is the index of the atom the token belongs to / was written after."""
    toks = []
    i = 0
    natoms = 0
    cur = None
    stack = []
    while i < len(smiles):
        ch = smiles[i]
        if ch == '[':
            j = smiles.index(']', i)
            cur = natoms
            natoms += 1
            toks.append(Tok('atom', smiles[i:j + 1], cur))
            i = j + 1
        elif ch == '(':
            stack.append(cur)
            toks.append(Tok('open', ch, cur))
            i += 1
        elif ch == ')':
            cur = stack.pop()
            toks.append(Tok('close', ch, cur))
            i += 1
        elif ch in '-=#:$':
            toks.append(Tok('bond', ch, cur))
            i += 1
        elif ch == '.':
            toks.append(Tok('dot', ch, cur))
            i += 1
        elif ch in '/\\':
            toks.append(Tok('slash', ch, cur))
            i += 1
        elif ch == '%':
            toks.append(Tok('ring', smiles[i:i + 3], cur))
            i += 3
        elif ch.isdigit():
            toks.append(Tok('ring', ch, cur))
            i += 1
        else:
            two = smiles[i:i + 2]
            if two in ('Cl', 'Br'):
                text = two
            else:
                text = ch
            cur = natoms
            natoms += 1
            toks.append(Tok('atom', text, cur))
            i += len(text)
    return toks


_BRACKET = re.compile(r'^\[(?P<el>[A-Z][a-z]?|[a-z])(?P<h>H\d*)?(?P<c>[+-]\d*|\+\+|--)?\]$')


def parse_atom(text):
    """-> dict(element, charge, aromatic, hcount or None (= implicit))"""
    if text.startswith('[#'):
        return dict(element=None, name=text[2:-1], charge=0, aromatic=False, hcount=None)
    if text.startswith('['):
        m = _BRACKET.match(text)
        if not m:
            raise ValueError("bracket atom %r outside the generator's subset" % text)
        el = m.group('el')
        h = m.group('h')
        hcount = 0 if h is None else (1 if h == 'H' else int(h[1:]))
        c = m.group('c')
        charge = 0
        if c:
            if c in ('++', '--'):
                charge = 2 if c[0] == '+' else -2
            else:
                charge = (1 if c[0] == '+' else -1) * (int(c[1:]) if len(c) > 1 else 1)
        arom = el.islower()
        return dict(element=el.capitalize(), charge=charge, aromatic=arom, hcount=hcount, bracket=True)
    arom = text.islower()
    return dict(element=text.capitalize() if arom else text, charge=0, aromatic=arom, hcount=None)


class Mol:
    """spec-side molecule: atoms (dicts) and bonds {(i, j): order}, i < j"""

    def __init__(self):
        self.atoms = []
        self.bonds = {}

    def add_bond(self, a, b, order):
        self.bonds[(min(a, b), max(a, b))] = order

    def neighbors(self, a):
        out = []
        for (i, j), o in self.bonds.items():
            if i == a:
                out.append((j, o))
            elif j == a:
                out.append((i, o))
        return out

    def copy(self):
        m = Mol()
        m.atoms = [dict(a) for a in self.atoms]
        m.bonds = dict(self.bonds)
        return m


def parse_smiles(smiles):
    """the molecule a SMILES skeleton of the subset denotes (heavy atoms only)"""
    mol = Mol()
    toks = tokenize(smiles)
    prev = None
    pending = None
    stack = []
    rings = {}
    for t in toks:
        if t.kind == 'atom':
            a = parse_atom(t.text)
            mol.atoms.append(a)
            idx = len(mol.atoms) - 1
            if prev is not None:
                order = pending
                if order is None:
                    order = 1.5 if (mol.atoms[prev]['aromatic'] and a['aromatic']) else 1
                if order != 0:
                    mol.add_bond(prev, idx, order)
            prev = idx
            pending = None
        elif t.kind == 'bond':
            pending = BOND_ORDER[t.text]
        elif t.kind == 'dot':
            pending = 0
        elif t.kind == 'open':
            stack.append(prev)
        elif t.kind == 'close':
            prev = stack.pop()
            pending = None
        elif t.kind == 'ring':
            key = int(t.text.lstrip('%'))
            if key in rings:
                other, o2 = rings.pop(key)
                order = pending if pending is not None else o2
                if order is None:
                    order = 1.5 if (mol.atoms[prev]['aromatic'] and mol.atoms[other]['aromatic']) else 1
                mol.add_bond(prev, other, order)
            else:
                rings[key] = (prev, pending)
            pending = None
    return mol


def valences(el, charge):
    return VALENCE.get((el, charge))


def expected_h(mol, extra=None):
    """hydrogens each heavy atom must carry: min{v in V : v >= sum} - sum, where sum
    is the sum of bond orders to heavy atoms (aromatic bonds: a ring atom with two
    aromatic bonds counts them as 3, i.e. one double + one single in a Kekule form).
    ``extra`` adds (possibly symbolic) bond order per atom.  Atoms whose sum exceeds
    every valence (outside the property's precondition) are returned as None."""
    from . import symx
    out = []
    for i, a in enumerate(mol.atoms):
        if a.get('element') in (None, 'H'):
            out.append(None)
            continue
        s = 0
        narom = 0
        for _j, o in mol.neighbors(i):
            if o == 1.5:
                narom += 1
            else:
                s += o
        if narom == 2:
            s += 3
        elif narom == 3:
            s += 4
        elif narom:
            s += narom  # lone aromatic bond (split ring): decided by the caller
        if extra and extra.get(i) is not None:
            s = s + extra[i]
        vs = valences(a['element'], a['charge'])
        if vs is None:
            out.append(None)
            continue
        if symx.is_sym(s):
            e = None
            for v in reversed(vs):
                e = (v - s) if e is None else symx.ite(s <= v, v - s, e)
            out.append((e, s <= vs[-1]))
        else:
            fit = [v for v in vs if v >= s]
            out.append((fit[0] - s, True) if fit else None)
    return out


# ---- partitions ----------------------------------------------------------
def components(n, bonds):
    parent = list(range(n))

    def find(x):
        while parent[x] != x:
            parent[x] = parent[parent[x]]
            x = parent[x]
        return x
    for (i, j) in bonds:
        parent[find(i)] = find(j)
    groups = {}
    for i in range(n):
        groups.setdefault(find(i), []).append(i)
    return sorted(groups.values())


def partitions(mol, max_frag=3, max_cut_pair=2, cuttable=None):
    """all ways of cutting bonds such that every cut bond joins two different fragments"""
    bonds = sorted(mol.bonds)
    cand = [b for b in bonds if cuttable is None or cuttable(b)]
    out = []
    for k in range(0, len(cand) + 1):
        for cut in itertools.combinations(cand, k):
            keep = [b for b in bonds if b not in cut]
            comps = components(len(mol.atoms), keep)
            if len(comps) > max_frag:
                continue
            where = {a: ci for ci, c in enumerate(comps) for a in c}
            if any(where[i] == where[j] for (i, j) in cut):
                continue
            pair_count = {}
            for (i, j) in cut:
                key = tuple(sorted((where[i], where[j])))
                pair_count[key] = pair_count.get(key, 0) + 1
            if any(v > max_cut_pair for v in pair_count.values()):
                continue
            out.append((list(cut), comps))
    return out


# ---- SMILES rendering of a fragment --------------------------------------
def atom_text(a):
    if a.get('text'):
        return a['text']
    el = a['element']
    if a.get('aromatic'):
        el = el.lower()
    if a.get('bracket') or a['charge'] or a.get('hcount') is not None and a.get('bracket'):
        h = a.get('hcount') or 0
        hs = '' if h == 0 else ('H' if h == 1 else 'H%d' % h)
        c = a['charge']
        cs = '' if c == 0 else (('+' if c > 0 else '-') + (str(abs(c)) if abs(c) > 1 else ''))
        return '[%s%s%s]' % (el, hs, cs)
    return el


BOND_SYMBOL = {1: '', 2: '=', 3: '#', 1.5: '', 4: '$'}


def render_fragment(mol, atoms, start, child_order=0, ring_base=1):
    """DFS rendering of the sub-molecule induced by ``atoms`` starting at ``start``.
    -> list of pieces: ('atom', mol_index) ('bond', sym) ('open',) ('close',) ('ring', digit_text, sym)
    The order of atoms of appearance is the fragment's atom numbering."""
    atoms = set(atoms)
    adj = {a: [] for a in atoms}
    for (i, j), o in mol.bonds.items():
        if i in atoms and j in atoms:
            adj[i].append((j, o))
            adj[j].append((i, o))
    for a in adj:
        adj[a].sort()
        if child_order == 1:
            adj[a].reverse()
    # spanning tree by DFS
    seen = []
    tree = {a: [] for a in atoms}
    ring_bonds = []
    visited = set()

    def dfs(a, parent):
        visited.add(a)
        seen.append(a)
        for (b, o) in adj[a]:
            if b == parent:
                continue
            if b in visited:
                key = (min(a, b), max(a, b))
                if key not in [r[0] for r in ring_bonds]:
                    ring_bonds.append((key, o))
                continue
            tree[a].append((b, o))
            dfs(b, a)
    dfs(start, None)
    ring_of = {}
    for k, (key, o) in enumerate(ring_bonds):
        digit = ring_base + k
        txt = str(digit) if digit < 10 else '%%%d' % digit
        ring_of.setdefault(key[0], []).append((txt, o, key))
        ring_of.setdefault(key[1], []).append((txt, o, key))
    pieces = []
    opened = set()

    def bond_sym(a, b, o):
        if o == 1.5:
            return ''
        if o == 1 and mol.atoms[a].get('aromatic') and mol.atoms[b].get('aromatic'):
            return '-'
        return BOND_SYMBOL[o]

    def emit(a):
        pieces.append(('atom', a))
        for (txt, o, key) in ring_of.get(a, []):
            sym = ''
            if key not in opened:
                opened.add(key)
                sym = bond_sym(key[0], key[1], o)
            pieces.append(('ring', txt, sym, a))
        kids = tree[a]
        for k, (b, o) in enumerate(kids):
            last = k == len(kids) - 1
            if not last:
                pieces.append(('open', a))
            s = bond_sym(a, b, o)
            if s:
                pieces.append(('bond', s, a))
            emit(b)
            if not last:
                pieces.append(('close', a))
    emit(start)
    return pieces, seen


# ---- spec-side reading of the descriptors written in a fragment text -----
_ORD = {'-': '1', '=': '2', '#': '3', '$': '4', '.': '0'}


def parse_descriptors(text):
    """{atom index: [descriptor + order digit, ...]} as written in a (concrete) fragment text.
    A leading descriptor belongs to the first atom and carries its order symbol behind it; any other descriptor
    belongs to the atom it is written after (after ring digits, further descriptors or a closed branch of that atom)
    and carries its order symbol in front (docs/source/syntax/fragments.rst)."""
    out = {}
    n = len(text)
    i = 0
    natoms = 0
    prev = 0
    stack = []
    pending = None
    while i < n:
        c = text[i]
        if c == '[':
            j = text.index(']', i)
            body = text[i + 1:j]
            if body and body[0] in '$<>!':
                if natoms == 0:
                    order = '1'
                    if j + 1 < n and text[j + 1] in _ORD:
                        order = _ORD[text[j + 1]]
                        j += 1
                    out.setdefault(0, []).append(body + order)
                else:
                    out.setdefault(prev, []).append(body + (_ORD[pending] if pending else '1'))
                pending = None
            else:
                prev = natoms
                natoms += 1
                pending = None
            i = j + 1
            continue
        if c in _ORD and c != '$':
            pending = c
        elif c == '$':
            pending = c
        elif c == '(':
            stack.append(prev)
            pending = None
        elif c == ')':
            prev = stack.pop()
            pending = None
        elif c == '%':
            i += 2
            pending = None
        elif c.isdigit():
            pending = None
        elif c in '/\\':
            pass
        else:
            if text[i:i + 2] in ('Cl', 'Br'):
                i += 1
            prev = natoms
            natoms += 1
            pending = None
        i += 1
    return out
