"""
check <ID> [--tier quick|thorough] [--replay FILE] [--jobs N] [--selftest] [--mutant NAME]

exit 0: the property held on everything explored (known findings are listed)
exit 1: a violation not listed in known_findings.json was found *and replayed*
        against the unmodified code  (line: VIOLATION property=<id> replay=<path>)
exit 2: inconclusive (solver unknown, unsupported construct, non-reproducing
        witness, model/implementation mismatch, bound exceeded) -- never success
"""
import argparse
import json
import os
import random
import sys
import time

from . import core, loader, registry


def main(argv=None):
    ap = argparse.ArgumentParser()
    ap.add_argument('pid')
    ap.add_argument('--tier', default=os.environ.get('VERIF_TIER', 'quick'), choices=['quick', 'thorough'])
    ap.add_argument('--replay')
    ap.add_argument('--jobs', type=int, default=int(os.environ.get('VERIF_JOBS', '16')))
    ap.add_argument('--mutant')
    ap.add_argument('--selftest', action='store_true')
    ap.add_argument('--limit', type=int, default=0, help='debug: only the first N shapes')
    ap.add_argument('--no-evidence', action='store_true')
    ap.add_argument('-v', '--verbose', action='store_true')
    args = ap.parse_args(argv)
    pid = args.pid.upper()
    prop = registry.get(pid)
    seed = int(os.environ.get('VERIF_SEED', '0') or 0)

    if args.replay:
        return do_replay(prop, args.replay)
    if args.selftest:
        return do_selftest(prop, args)
    return do_check(prop, args, seed)


def do_replay(prop, path):
    with open(path) as fh:
        rec = json.load(fh)
    OR = loader.load_orig(prop.MODULES)
    prop.setup_orig(OR)
    loader.snapshot_state(OR, prop.MODULES)
    bad, cobs = core.replay_record(prop, OR, rec['shape'], core.unjson(rec['input']))
    print("input:", json.dumps(prop.sample(rec['shape'], core.unjson(rec['input'])), default=str)[:2000])
    print("observed:", json.dumps(core.norm(cobs), default=str)[:2000])
    if bad:
        print("REPRODUCED property=%s violated_clauses=%s" % (prop.ID, ','.join(bad)))
        return 1
    print("NOT REPRODUCED property=%s" % prop.ID)
    return 0


def run_all(prop, shapes, args, mutant=None, stop_on_ce=False):
    results = []
    t0 = time.time()
    n = len(shapes)
    done = [0]

    def progress(r):
        done[0] += 1
        if args.verbose and (done[0] % 50 == 0 or r['ces'] or r['inconclusive']):
            print("  [%d/%d] %.0fs paths=%d ces=%d inc=%d" % (
                done[0], n, time.time() - t0, r['paths'], len(r['ces']), len(r['inconclusive'])), file=sys.stderr)
    gen = core.run_pool(prop.ID, shapes, args.jobs, mutant=mutant, progress=progress)
    for r in gen:
        results.append(r)
        if stop_on_ce and r['ces']:
            gen.close()
            break
    return results


def do_check(prop, args, seed):
    t0 = time.time()
    tv_n, tv_bad = core.translator_validation()
    for name, text, r1, r2 in tv_bad[:5]:
        print("TRANSLATOR MISMATCH %s on %r: rewritten=%s original=%s" % (name, text, str(r1)[:300], str(r2)[:300]), file=sys.stderr)
    shapes = prop.shapes(args.tier)
    rnd = random.Random(seed)
    order = list(range(len(shapes)))
    rnd.shuffle(order)          # VERIF_SEED only permutes the order; the bound is exhausted regardless
    shapes = [shapes[i] for i in order]
    if args.limit:
        shapes = shapes[:args.limit]
    if args.tier == 'thorough' and not args.mutant:
        os.environ.setdefault('VERIF_CROSSCHECK', '40')
    results = run_all(prop, shapes, args, mutant=args.mutant)
    cross = core.cross_check([f for r in results for f in r.get('cross', [])]) if os.environ.get('VERIF_CROSSCHECK', '0') not in ('', '0') else None
    for d in (cross or {}).get('disagreements', [])[:3]:
        print("SOLVER DISAGREEMENT %s said %s, z3 5.1 said %s" % (d['solver'], d['said'], d['z3_5_1']), file=sys.stderr)
    second = None
    if args.tier == 'thorough' and not args.mutant and getattr(prop, 'CROSSHAIR_KERNELS', None):
        second = core.crosshair_kernels(prop.CROSSHAIR_KERNELS)
    OR = loader.load_orig(prop.MODULES)
    prop.setup_orig(OR)
    loader.snapshot_state(OR, prop.MODULES)      # every replay starts from the state of a fresh process
    known, fixed = core.load_known(prop.ID)

    violations, known_hits, nonrepro = [], {}, []
    seen = set()
    os.makedirs(os.path.join(core.VERIF, 'replays', prop.ID), exist_ok=True)
    for r in results:
        for ce in r['ces']:
            cinp = core.unjson(ce['input'])
            key = core._digest([r['shape'], ce['input']])
            if key in seen:
                continue
            seen.add(key)
            try:
                bad, cobs = core.replay_record(prop, OR, r['shape'], cinp, clause=ce.get('clause'))
            except BaseException as exc:
                nonrepro.append(dict(shape=r['shape'], input=ce['input'], error=repr(exc)))
                continue
            if not bad:
                nonrepro.append(dict(shape=r['shape'], input=ce['input'], clause=ce['clause']))
                continue
            fid = prop.classify(r['shape'], cinp, cobs, bad)
            if fid is not None and fid in known:
                known_hits.setdefault(fid, []).append(prop.sample(r['shape'], cinp))
                continue
            path = os.path.join(core.VERIF, 'replays', prop.ID, key + '.json')
            with open(path, 'w') as fh:
                json.dump(dict(property=prop.ID, shape=r['shape'], input=ce['input'], clauses=bad,
                               how="./check %s --replay %s" % (prop.ID, path)), fh, indent=1, default=str)
            violations.append((path, bad, prop.sample(r['shape'], cinp)))

    inconclusive = [(r['shape'], m) for r in results for m in r['inconclusive']]
    if hasattr(prop, 'vacuity_groups') and not args.limit:
        # properties whose single shapes may legitimately be vacuous: every *group* of shapes must reach the assertion
        groups = {}
        for r in results:
            g = prop.vacuity_groups(r['shape'])
            if g is not None:
                groups[g] = groups.get(g, 0) + r['reached']
        for g, n_reached in sorted(groups.items()):
            if n_reached == 0:
                inconclusive.append(({'group': g}, "vacuous: no path of group %r reached the assertion" % (g,)))
    mismatches = [(r['shape'], m) for r in results for m in r['mismatches']]

    for fid, samples in sorted(known_hits.items()):
        print("KNOWN-FINDING: property=%s %s -- %s (e.g. %s; %d witnesses this run)" % (
            prop.ID, fid, known[fid]['what'], json.dumps(samples[0], default=str)[:300], len(samples)))
    for path, bad, smp in violations[:20]:
        print("VIOLATION property=%s replay=%s" % (prop.ID, path))
        print("  clauses=%s input=%s" % (','.join(bad), json.dumps(smp, default=str)[:600]))
    if len(violations) > 20:
        print("  ... %d further violations" % (len(violations) - 20))
    for shape, m in inconclusive[:10]:
        print("INCONCLUSIVE %s: %s" % (json.dumps(shape, default=str)[:200], str(m)[:1500]), file=sys.stderr)
    for shape, m in mismatches[:5]:
        print("MISMATCH symbolic-vs-real %s: %s" % (json.dumps(shape, default=str)[:200], json.dumps(m, default=str)[:1500]),
              file=sys.stderr)
    for nr in nonrepro[:5]:
        print("NON-REPRODUCING witness %s" % json.dumps(nr, default=str)[:800], file=sys.stderr)

    wall = time.time() - t0
    if not args.no_evidence and not args.mutant and not args.limit:
        write_evidence(prop, args.tier, seed, results, violations, known_hits, inconclusive, mismatches, nonrepro, wall,
                       tv=(tv_n, len(tv_bad)), cross=cross, second=second)
    tot_paths = sum(r['paths'] for r in results)
    print("property=%s tier=%s shapes=%d paths=%d queries=%d validated=%d solver_s=%.1f wall=%.1fs violations=%d known=%d inconclusive=%d" % (
        prop.ID, args.tier, len(results), tot_paths, sum(r['queries'] for r in results),
        sum(r['validated'] for r in results), sum(r['solver_s'] for r in results), wall,
        len(violations), sum(len(v) for v in known_hits.values()),
        len(inconclusive) + len(mismatches) + len(nonrepro)))
    if violations:
        return core.EXIT_VIOLATION
    if inconclusive or mismatches or nonrepro or tv_bad or (cross and cross['disagreements']):
        return core.EXIT_INCONCLUSIVE
    return core.EXIT_OK


def write_evidence(prop, tier, seed, results, violations, known_hits, inconclusive, mismatches, nonrepro, wall, tv=(0, 0), cross=None,
                   second=None):
    cov = set()
    for r in results:
        cov.update(tuple(x) for x in r.get('cov', []))
    flines = core.function_lines(prop.MODULES)
    reached = {}
    for (fname, func), lines in flines.items():
        if func in prop.FUNCTIONS:
            hit = sum(1 for ln in lines if (fname, ln) in cov)
            reached["%s:%s" % (fname, func)] = "%d/%d" % (hit, len(lines))
    samples = [r['sample'] for r in results if r.get('sample') is not None][:8]
    clause_counts = {}
    for r in results:
        for k, v in r['clauses'].items():
            clause_counts[k] = clause_counts.get(k, 0) + v
    ev = dict(
        property_id=prop.ID, tier=tier, seed=seed, level='model_checking',
        coverage=dict(
            states=sum(r['paths'] for r in results),
            transitions=sum(r['branches'] for r in results),
            traces_validated_against_impl=sum(r['validated'] for r in results),
            samples=samples or ["<none>"],
            exhaustive=not inconclusive,
            shapes=len(results),
            paths_reaching_assertion=sum(r['reached'] for r in results),
            paths_infeasible_or_pruned=sum(r['aborted'] for r in results),
            forks=sum(r['forks'] for r in results),
            queries_discharged=sum(r['queries'] for r in results),
            solver_checks=sum(r['checks'] for r in results),
            solver_s=round(sum(r['solver_s'] for r in results), 2),
            summary_paths=sum(r.get('summary_paths', 0) for r in results),
            assertion_clauses=clause_counts,
            functions_encoded=prop.FUNCTIONS,
            lines_reached=reached,
            bounds=prop.BOUNDS.get(tier, ''),
            outside_the_claim=prop.OUTSIDE,
            stubs=prop.STUBS,
            engine="symx: AST-rewritten source of %s executed on symbolic values; z3 %s decides every branch and assertion" % (
                loader.REPO, __import__('z3').get_version_string()),
            known_findings={k: len(v) for k, v in known_hits.items()},
            extra=_sum_extra(results),
            translator_validation=dict(runs_on_repo_test_strings=tv[0], disagreements=tv[1]),
            cross_solver=({k: (v if k != 'disagreements' else len(v)) for k, v in cross.items()} if cross else 'not run in this tier'),
            second_engine_crosshair_on_leaf_kernels=(second if second is not None else 'not run (thorough tier of C03/C04/C16 only)'),
            inconclusive=len(inconclusive) + len(mismatches) + len(nonrepro),
        ),
        assumptions=prop.ASSUMPTIONS,
        wall_s=round(wall, 2),
        violations=len(violations),
    )
    os.makedirs(os.path.join(core.VERIF, 'evidence'), exist_ok=True)
    with open(os.path.join(core.VERIF, 'evidence', prop.ID + '.json'), 'w') as fh:
        json.dump(ev, fh, indent=1, default=str)


def _sum_extra(results):
    out = {}
    for r in results:
        for k, v in (r.get('extra') or {}).items():
            out[k] = out.get(k, 0) + v
    return out


def do_selftest(prop, args):
    """sensitivity: every listed seeded fault (applied to the in-memory source
    text before rewriting, never to /repo) must be flagged"""
    shapes = prop.shapes(args.tier)
    ok = True
    for name in sorted(prop.MUTANTS):
        stale = [mod for mod, (old, _new) in prop.MUTANTS[name].items()
                 if open(os.path.join(loader.REPO, 'cgsmiles', mod + '.py')).read().count(old) != 1]
        if stale:
            # the anchor text is gone from /repo (the code was changed): report instead of letting the pool respawn forever
            print("SELFTEST mutant=%s STALE (anchor text not found exactly once in %s)" % (name, ','.join(stale)))
            ok = False
            continue
        results = run_all(prop, shapes, args, mutant=name, stop_on_ce=True)
        nce = sum(len(r['ces']) for r in results)
        print("SELFTEST mutant=%s %s" % (name, "detected" if nce else "MISSED"))
        ok = ok and nce > 0
    return 0 if ok else 2


if __name__ == '__main__':
    try:
        rc = main()
    except SystemExit:
        raise
    except BaseException:
        # an error of the machinery itself is never an alarm (exit 1 is reserved for replayed violations)
        import traceback
        traceback.print_exc()
        print("HARNESS ERROR: inconclusive", file=sys.stderr)
        rc = 2
    sys.exit(rc)
