#!/bin/sh
# offline: install the z3 wheel beside the framework (the repo's /venv is not touched)
HERE="$(cd "$(dirname "$0")" && pwd)"
if [ ! -d "$HERE/.deps/z3" ]; then
  PIP_NO_INDEX=1 /venv/bin/pip install --quiet --no-index --find-links /opt/veriftools/wheels \
      --target "$HERE/.deps" z3-solver || exit 1
fi
PYTHONPATH="$HERE/.deps" /venv/bin/python -c "import z3; print('z3', z3.get_version_string())"
# optional second engine for the thorough tier (CrossHair on leaf kernels); failure to install is not fatal
if [ ! -d "$HERE/.deps_crosshair/crosshair" ]; then
  PIP_NO_INDEX=1 /venv/bin/pip install --quiet --no-index --find-links /opt/veriftools/wheels \
      --target "$HERE/.deps_crosshair" crosshair-tool >/dev/null 2>&1 || true
fi
